#!/bin/bash
# run every registered check once (tier = $1, default quick) and summarise
tier=${1:-quick}
for p in C01 C02 C03 C04 C05 C06 C07 C08 C09 C10 C11 C12 C13 C16 C17 C18; do
  s=$(date +%s.%N)
  out=$(./check $p $tier 2>&1); rc=$?
  e=$(date +%s.%N)
  printf "%s rc=%d %.1fs %s\n" $p $rc $(echo "$e - $s" | bc) "$(echo "$out" | grep -E '^runs=' | head -1)"
  echo "$out" | grep -E "VIOLATION|KNOWN-FINDING|HARNESS-ERROR" | head -5
done

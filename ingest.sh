#!/bin/bash
# ingest.sh <worktree> <PROP>: verify and import a sub-agent's mutations into /verif/seeded/
# (suite passes with change; demo fails with change; demo passes without), using the scratch worktree /tmp/own.
wt=$1; prop=$2; W=/tmp/own; export CARGO_TARGET_DIR=/tmp/own-target
for d in $wt/mutations/*/; do
  name=$(basename $d); id=$(echo "$prop-$name" | tr 'A-Z' 'a-z'); dst=/verif/seeded/$id
  demo=$(ls $d/*.rs 2>/dev/null | head -1); [ -z "$demo" ] && { echo "INGEST $id no demo"; continue; }
  tname=$(basename $demo .rs)
  git -C $W checkout -q -- . ; git -C $W clean -qfd
  if ! git -C $W apply $d/patch.diff; then echo "INGEST $id PATCH-DOES-NOT-APPLY"; continue; fi
  suite=$(cd $W && cargo test --offline 2>&1 | grep -E "^test result|^error" )
  suite_ok=$(echo "$suite" | grep -c "test result: ok"); suite_bad=$(echo "$suite" | grep -cE "FAILED|^error")
  cp $demo $W/tests/$tname.rs
  with=$(cd $W && cargo test --offline --test $tname 2>&1 | grep -E "^test result|^error|signal: 6|SIGABRT" | head -1 | sed "s#.*signal: 6.*#test result: FAILED (process aborted, SIGABRT)#")
  git -C $W checkout -q -- .
  without=$(cd $W && cargo test --offline --test $tname 2>&1 | grep -E "^test result|^error" | head -1)
  rm -f $W/tests/$tname.rs
  okflag=0
  if [ "$suite_ok" -ge 7 ] && [ "$suite_bad" -eq 0 ] && echo "$with" | grep -qE "FAILED|test failed" && echo "$without" | grep -q "ok\."; then okflag=1; fi
  echo "INGEST $id suite_ok=$suite_ok suite_bad=$suite_bad with=[$with] without=[$without] CONFIRMED=$okflag"
  if [ $okflag -eq 1 ]; then
    mkdir -p $dst; cp $d/patch.diff $dst/patch.diff; cp $demo $dst/; cp $d/README.md $dst/AGENT_README.md 2>/dev/null
    python3 - "$dst" "$id" "$prop" "$tname" <<'PY'
import json,sys
dst,id_,prop,tname=sys.argv[1:5]
json.dump({"id":id_,"property":prop,"origin":"independent sub-agent (given only the property text and a scratch worktree)",
 "needs_to_manifest":"see AGENT_README.md","demonstration":tname+".rs",
 "confirmed":{"suite_passes_with_change":True,"demo_fails_with_change":True,"demo_passes_without_change":True,
   "how":"ingest.sh: git apply in scratch worktree /tmp/own; cargo test --offline (all suites ok); cargo test --offline --test "+tname+" FAILED with the change, ok without"}},
 open(dst+"/meta.json","w"),indent=1)
PY
  fi
done

#!/bin/bash
# mutest.sh <patch.diff> <PROP>[,<PROP>...] [tier]
# Applies a seeded change to a scratch worktree of /repo (never to /repo itself),
# runs the named checks against it and reports whether each one caught it.
# Evidence/replays of these runs go to a scratch VERIF_DIR, not to /verif/evidence.
set -u
patch=$(readlink -f "$1"); props=${2:-all}; tier=${3:-quick}
MT=${MT_DIR:-/tmp/mt}
if [ ! -d "$MT/.git" ] && [ ! -f "$MT/.git" ]; then git -C /repo worktree add -q --detach "$MT" HEAD || exit 2; fi
git -C "$MT" checkout -q --detach $(git -C /repo rev-parse HEAD) 2>/dev/null
git -C "$MT" checkout -- . ; git -C "$MT" clean -qfd -e target
if ! git -C "$MT" apply "$patch" 2>/dev/null; then
  # later fix: commits may have moved the context: fall back to the /repo commit recorded in meta.json
  base=$(jq -r '.applies_to_repo_commit // empty' "$(dirname "$patch")/meta.json" 2>/dev/null)
  if [ -n "$base" ] && git -C "$MT" checkout -q --detach "$base" && git -C "$MT" apply "$patch"; then
    echo "MUTEST note: applied at /repo commit $base (does not apply to HEAD)"
  else
    echo "MUTEST patch does not apply: $patch"; exit 2
  fi
fi
[ "$props" = "all" ] && props=C01,C02,C03,C04,C05,C06,C07,C08,C09,C10,C11,C12,C13,C16,C17,C18
export VERIF_DIR=${MT}-verif; mkdir -p $VERIF_DIR; cp /verif/KNOWN_FINDINGS $VERIF_DIR/; export VERIF_KNOWN=$VERIF_DIR/KNOWN_FINDINGS
caught=""
for p in ${props//,/ }; do
  out=$(PEPPI_REPO=$MT /verif/check $p $tier 2>&1); rc=$?
  v=$(echo "$out" | grep -B1 "^VIOLATION" | grep -v "^VIOLATION" | grep -v "^--" | head -2 | tr '\n' '|')
  echo "MUTEST $(basename $(dirname $patch))/$(basename $patch) $p rc=$rc $v"
  [ $rc -eq 1 ] && caught="$caught $p"
done
git -C "$MT" checkout -- .
echo "MUTEST-SUMMARY $(basename $(dirname $patch)) caught_by:${caught:- NONE}"

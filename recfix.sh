#!/bin/bash
# recfix.sh <ONUM> <PROP> <seeded-id> "<needs>" "<fixed-line-text>"  : commit already made in /repo; records fixed: line and reverse patch
onum=$1; prop=$2; sid=$3; needs=$4; text=$5
h=$(git -C /repo rev-parse --short HEAD)
python3 - "$h" "$prop" "$text" <<'PY'
import sys
h,prop,text=sys.argv[1:4]
p='/verif/KNOWN_FINDINGS'
lines=open(p).read().rstrip('\n').split('\n')
idx=max(i for i,l in enumerate(lines) if l.startswith('fixed:'))
lines.insert(idx+1,f'fixed: property={prop} {h} {text}')
open(p,'w').write('\n'.join(lines)+'\n')
PY
mkdir -p /verif/seeded/$sid
git -C /repo diff HEAD HEAD~1 -- src > /verif/seeded/$sid/patch.diff
python3 - "$sid" "$prop" "$onum" "$needs" <<'PY'
import sys,json
sid,prop,onum,needs=sys.argv[1:5]
json.dump({"id":sid,"property":prop,"origin":f"reverse of the repair of finding {onum}: the behaviour of hohav/peppi before the repair","needs_to_manifest":needs,"suite_passes_with_change":True},open(f'/verif/seeded/{sid}/meta.json','w'),indent=1)
PY
echo "recorded $onum $h"

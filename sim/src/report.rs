//! Run reports, violations, and the guarded-call helper (panic / no-progress capture).

use crate::prng::{mix, mix_bytes, mix_str};
use crate::simio::{IoStats, NoProgress};
use serde::{Deserialize, Serialize};
use std::cell::RefCell;
use std::collections::{BTreeMap, BTreeSet};
use std::panic::{catch_unwind, AssertUnwindSafe};

#[derive(Serialize, Deserialize, Clone, Debug, PartialEq)]
pub struct Violation {
    pub property: String,
    /// one of the kinds listed in DESIGN Appendix B
    pub kind: String,
    /// where: stage / field path / panic location
    pub site: String,
    pub message: String,
}

impl Violation {
    pub fn new(property: &str, kind: &str, site: impl Into<String>, message: impl Into<String>) -> Self {
        Violation { property: property.to_string(), kind: kind.to_string(), site: site.into(), message: message.into() }
    }
    pub fn sig(&self) -> String {
        format!("{}/{}/{}", self.property, self.kind, self.site)
    }
}

#[derive(Serialize, Deserialize, Clone, Debug, Default)]
pub struct RunReport {
    pub violation: Option<Violation>,
    pub digest: u64,
    pub sim_time_ns: u64,
    pub stream_calls: u64,
    pub faults: BTreeMap<String, u64>,
    pub probes: BTreeMap<String, u64>,
    pub states: BTreeSet<u64>,
    pub interleavings: BTreeSet<u64>,
    pub shape_sig: u64,
    pub nontrivial: bool,
    /// legs that could not be evaluated because of a failure owned by another property
    pub skipped: BTreeMap<String, u64>,
    /// number of elementary checks (oracle evaluations) performed
    pub checks: u64,
    #[serde(default)]
    pub oplog: Vec<String>,
}

/// Mutable context handed to scenario code.
#[derive(Default)]
pub struct Ctx {
    pub rep: RunReport,
    shape: u64,
}

impl Ctx {
    pub fn new() -> Self {
        let mut c = Ctx::default();
        c.rep.digest = 0xD16;
        c.shape = 0x5A9E;
        c
    }
    pub fn fault(&mut self, name: &str, n: u64) {
        if n > 0 {
            *self.rep.faults.entry(name.to_string()).or_default() += n;
        }
    }
    pub fn probe(&mut self, name: &str) {
        *self.rep.probes.entry(name.to_string()).or_default() += 1;
    }
    pub fn probe_if(&mut self, cond: bool, name: &str) {
        if cond {
            self.probe(name)
        }
    }
    pub fn skip(&mut self, name: &str) {
        *self.rep.skipped.entry(name.to_string()).or_default() += 1;
    }
    pub fn state(&mut self, s: u64) {
        self.rep.states.insert(s);
    }
    pub fn digest_u64(&mut self, x: u64) {
        self.rep.digest = mix(self.rep.digest, x);
    }
    pub fn digest_bytes(&mut self, b: &[u8]) {
        self.rep.digest = mix_bytes(self.rep.digest, b);
    }
    pub fn digest_str(&mut self, s: &str) {
        self.rep.digest = mix_str(self.rep.digest, s);
    }
    /// contribute a component to the scenario shape signature
    pub fn shape(&mut self, tag: &str, v: u64) {
        self.shape = mix(mix_str(self.shape, tag), v);
        self.rep.shape_sig = self.shape;
    }
    pub fn io(&mut self, s: &IoStats) {
        self.fault("short_read", s.short_reads);
        self.fault("short_read_scribbling_rest_of_buffer", s.scribbles);
        self.fault("interrupted_read", s.eintr);
        self.fault("hard_read_error", s.hard_errors);
        self.fault("seek_error", s.seek_errors);
        self.fault("short_write", s.short_writes);
        self.fault("interrupted_write", s.write_eintr);
        self.fault("enospc", s.enospc);
        self.fault("full_sink_returns_zero", s.full_zero);
        self.fault("flush_error", s.flush_errors);
        self.fault("connection_drop", s.drops);
        self.fault("eof_poll", s.eof_polls);
        self.rep.stream_calls += s.reads + s.seeks + s.writes;
        if s.split_inside_event > 0 {
            *self.rep.probes.entry("short read split inside an event".into()).or_default() += s.split_inside_event;
        }
        if s.split_on_edge > 0 {
            *self.rep.probes.entry("short read ended exactly on an event boundary".into()).or_default() +=
                s.split_on_edge;
        }
        if s.recorder_steps > 0 {
            *self.rep.probes.entry("recorder steps interleaved with parser".into()).or_default() += s.recorder_steps;
        }
    }
    pub fn check(&mut self) {
        crate::simio::progress();
        self.rep.checks += 1;
    }
    pub fn checks(&mut self, n: u64) {
        crate::simio::progress();
        self.rep.checks += n;
    }
}

#[derive(Debug, Clone)]
pub enum Caught {
    Panic { msg: String, loc: String },
    NoProgress(String),
}

thread_local! {
    static LAST_PANIC: RefCell<Option<(String, String)>> = RefCell::new(None);
}

pub fn install_panic_hook() {
    std::panic::set_hook(Box::new(|info| {
        let msg = if let Some(s) = info.payload().downcast_ref::<&str>() {
            s.to_string()
        } else if let Some(s) = info.payload().downcast_ref::<String>() {
            s.clone()
        } else {
            "<non-string panic payload>".to_string()
        };
        let loc = info
            .location()
            .map(|l| {
                let f = l.file();
                // keep paths stable regardless of where the repo lives
                let f = f.rsplit_once("/src/").map(|(a, b)| {
                    let krate = a.rsplit('/').next().unwrap_or("");
                    format!("{}/src/{}", krate, b)
                }).unwrap_or_else(|| f.to_string());
                format!("{}:{}", f, l.line())
            })
            .unwrap_or_else(|| "?".to_string());
        LAST_PANIC.with(|p| *p.borrow_mut() = Some((msg, loc)));
    }));
}

/// Run `f`, converting a panic or a NoProgress unwind into a value.
pub fn guarded<T>(f: impl FnOnce() -> T) -> Result<T, Caught> {
    LAST_PANIC.with(|p| *p.borrow_mut() = None);
    match catch_unwind(AssertUnwindSafe(f)) {
        Ok(v) => {
            // a panic that the code under test caught itself is still a panic: the application's panic hook
            // ran, and a `panic = "abort"` build would have died there
            if let Some((msg, loc)) = LAST_PANIC.with(|p| p.borrow_mut().take()) {
                return Err(Caught::Panic { msg: format!("(caught inside the library) {}", msg), loc });
            }
            Ok(v)
        }
        Err(payload) => {
            if let Some(np) = payload.downcast_ref::<NoProgress>() {
                return Err(Caught::NoProgress(np.0.clone()));
            }
            let (msg, loc) = LAST_PANIC.with(|p| p.borrow_mut().take()).unwrap_or_else(|| {
                let msg = if let Some(s) = payload.downcast_ref::<&str>() {
                    s.to_string()
                } else if let Some(s) = payload.downcast_ref::<String>() {
                    s.clone()
                } else {
                    "<unknown>".to_string()
                };
                (msg, "?".to_string())
            });
            Err(Caught::Panic { msg, loc })
        }
    }
}

/// First line, truncated: keeps sites/messages bounded.
pub fn short(s: &str, n: usize) -> String {
    let line = s.lines().next().unwrap_or("");
    if line.len() > n {
        let mut end = n;
        while !line.is_char_boundary(end) {
            end -= 1;
        }
        format!("{}…", &line[..end])
    } else {
        line.to_string()
    }
}

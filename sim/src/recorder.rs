//! Recorder reference model: an executable model of the *writer* side of the
//! Slippi spec. From a RecorderSpec it produces the event history (typed), the
//! encoded bytes and the expected observable state. It never decodes anything.

use crate::layout::{self as L, Kind};
use crate::prng::Rng;
use crate::spec::*;
use std::collections::BTreeMap;

#[derive(Clone, Debug, PartialEq)]
pub enum What {
    Payloads,
    Start,
    Gecko { last: bool },
    FStart,
    Pre { slot: usize, follower: bool },
    Post { slot: usize, follower: bool },
    Item { k: usize },
    FEnd,
    End { dup: bool },
    Unknown,
    /// one Message Splitter block of an unknown event (`code` = the wrapped code)
    SplitUnknown { last: bool, code: u8 },
}

#[derive(Clone, Debug)]
pub struct Ev {
    pub code: u8,
    /// offset in the file of the command byte
    pub off: usize,
    /// length including the command byte
    pub len: usize,
    pub occ: Option<usize>,
    pub what: What,
}

#[derive(Clone, Debug, Default)]
pub struct CharData {
    pub pre: Vec<u8>,
    pub post: Vec<u8>,
}

#[derive(Clone, Debug, Default)]
pub struct Occ {
    pub id: i32,
    pub fstart: Option<Vec<u8>>,
    /// (slot, follower) -> events (with command byte)
    pub chars: BTreeMap<(usize, bool), CharData>,
    pub items: Vec<Vec<u8>>,
    pub fend: Option<Vec<u8>>,
}

#[derive(Clone, Debug)]
pub struct Model {
    pub version: [u8; 3],
    pub v: (u8, u8),
    pub ports: Vec<PortSpec>,
    pub start: Vec<u8>,
    pub occs: Vec<Occ>,
    pub gecko: Option<(Vec<u8>, u32)>,
    pub end: Option<Vec<u8>>,
    pub double_end: bool,
    pub metadata: Option<Tree>,
    pub events: Vec<Ev>,
    pub table: Vec<(u8, u16)>,
    pub bytes: Vec<u8>,
    pub raw_len: usize,
    /// offset of the first byte after the raw element
    pub raw_end: usize,
}

pub const HEADER_LEN: usize = 15; // `{U\x03raw[$U#l` + u32

impl Model {
    pub fn has_fstart(&self) -> bool {
        L::gte(self.v, (2, 2))
    }
    pub fn has_fend(&self) -> bool {
        L::gte(self.v, (3, 0))
    }
    /// absolute offsets of event boundaries (start of every event + end of raw)
    pub fn edges(&self) -> Vec<usize> {
        let mut e: Vec<usize> = self.events.iter().map(|x| x.off).collect();
        e.push(self.raw_end);
        e.push(self.bytes.len());
        e
    }
    /// game time covered, in ns (frame occurrences at 60 Hz)
    pub fn sim_time_ns(&self) -> u64 {
        self.occs.len() as u64 * 16_666_667
    }
}

fn special_bits(rng: &mut Rng, ty: L::Ty) -> u64 {
    match ty {
        L::Ty::F32 => {
            const P: [u32; 12] = [
                0x7FC0_0000, // quiet NaN
                0x7F80_0001, // signalling NaN, minimal payload
                0xFFC1_2345, // negative NaN with payload
                0x7FFF_FFFF, // NaN all ones
                0x0000_0000, // +0
                0x8000_0000, // -0
                0x7F80_0000, // +inf
                0xFF80_0000, // -inf
                0x3F80_0000, // 1.0
                0x0000_0001, // denormal
                0xFFFF_FFFF,
                0x7FA0_0000,
            ];
            *rng.pick(&P) as u64
        }
        L::Ty::U32 | L::Ty::I32 => {
            // boundary patterns plus the sentinels other Slippi tooling uses for frame numbers
            // (-123 first frame, -124 "none yet", -1)
            const P: [u32; 10] = [0, 0xFFFF_FFFF, 0x8000_0000, 0x7FFF_FFFF, 1, 0x0102_0304, 0xFFFF_FF85, 0xFFFF_FF84, 0xFFFF_FF83, 0xFFFF_FFFE];
            *rng.pick(&P) as u64
        }
        L::Ty::U16 => {
            const P: [u16; 6] = [0, 0xFFFF, 0x8000, 0x7FFF, 1, 0x0102];
            *rng.pick(&P) as u64
        }
        L::Ty::U8 | L::Ty::I8 => {
            // boundaries plus bytes with a meaning elsewhere in the format (14 Ice Climbers, 0x21 "no character", port numbers)
            const P: [u8; 12] = [0, 0xFF, 0x80, 0x7F, 1, 0xFE, 14, 0x21, 2, 3, 4, 6];
            *rng.pick(&P) as u64
        }
    }
}

fn mix_seed(a: u64, b: u64) -> u64 {
    crate::prng::mix(crate::prng::mix(0x7EA1, a), b)
}

fn frame_event(
    rng: &mut Rng,
    kind: Kind,
    v: (u8, u8),
    extra: usize,
    special_rate: u8,
    id: i32,
    port: u8,
    follower: bool,
) -> Vec<u8> {
    let base = L::payload_size(kind, v);
    let size = base + extra;
    let mut ev = vec![0u8; size + 1];
    // known part from the frame's stream; extra trailing bytes (newer-version payloads) from a
    // separate stream so that a twin recording without them has identical known fields
    rng.fill(&mut ev[1..1 + base]);
    if extra > 0 {
        let mut xr = Rng::new(mix_seed(id as u64, L::code(kind) as u64 ^ ((port as u64) << 8) ^ ((follower as u64) << 16)));
        xr.fill(&mut ev[1 + base..]);
    }
    ev[0] = L::code(kind);
    if special_rate > 0 {
        for fld in L::fields(kind) {
            if L::gte(v, fld.since) && rng.below(special_rate as u64) == 0 {
                let bits = special_bits(rng, fld.ty);
                L::write_bits(&mut ev, fld, bits);
            }
        }
    }
    ev[1..5].copy_from_slice(&id.to_be_bytes());
    if matches!(kind, Kind::Pre | Kind::Post) {
        ev[5] = port;
        ev[6] = follower as u8;
    }
    ev
}

/// Alphabet of Shift-JIS units the harness knows the decoding of.
/// (bytes, decoded char)
pub const SJIS_UNITS: &[(&[u8], char)] = &[
    (b"A", 'A'),
    (b"z", 'z'),
    (b"0", '0'),
    (b" ", ' '),
    (b"#", '#'),
    (b"-", '-'),
    (b"\\", '\\'),
    (b"~", '~'),
    (&[0x82, 0xA0], '\u{3042}'), // hiragana a
    (&[0x83, 0x41], '\u{30A2}'), // katakana a
    (&[0x93, 0xFA], '\u{65E5}'), // kanji "day"
    (&[0x96, 0x7B], '\u{672C}'), // kanji "book"
    (&[0x82, 0x60], '\u{FF21}'), // full-width A
    (&[0x81, 0x40], '\u{3000}'), // ideographic space
    (&[0x81, 0x94], '\u{FF03}'), // full-width #
    (&[0xB1], '\u{FF71}'),       // half-width katakana a
    (&[0xB2], '\u{FF72}'),       // half-width katakana i
    (&[0xA1], '\u{FF61}'),       // half-width ideographic full stop (first of the single-byte range)
    (&[0xDF], '\u{FF9F}'),       // half-width semi-voiced mark (last of the single-byte range)
];

/// Write a random Shift-JIS string into `field`; returns the expected decoding.
fn fill_sjis(rng: &mut Rng, field: &mut [u8]) -> String {
    let n = field.len();
    rng.fill(field); // garbage after the NUL
    // desired content length: 0..=n (n = no NUL at all, rarely)
    let want = if rng.chance(1, 12) { n } else { rng.usize_below(n) };
    let mut pos = 0;
    let mut s = String::new();
    // now and then the whole text is one repeated unit (a field dense in 1-byte-to-3-byte or 2-byte units)
    let mono = if rng.chance(1, 6) { Some(*rng.pick(SJIS_UNITS)) } else { None };
    loop {
        let (b, c) = mono.unwrap_or_else(|| *rng.pick(SJIS_UNITS));
        if pos + b.len() > want {
            break;
        }
        field[pos..pos + b.len()].copy_from_slice(b);
        pos += b.len();
        s.push(c);
        if pos == want {
            break;
        }
    }
    if pos < n {
        field[pos] = 0;
    }
    s
}

const UTF8_UNITS: &[&str] = &["a", "Z", "9", "_", "-", "\u{e9}", "\u{3042}", "\u{1F600}", " ", "#"];

/// NUL-terminated UTF-8 (NUL guaranteed within the field); returns expected string.
fn fill_utf8z(rng: &mut Rng, field: &mut [u8]) -> String {
    let n = field.len();
    rng.fill(field);
    let want = rng.usize_below(n); // < n so a NUL always fits
    let mut pos = 0;
    let mut s = String::new();
    let mono = if rng.chance(1, 6) { Some(*rng.pick(UTF8_UNITS)) } else { None };
    loop {
        let u = mono.unwrap_or_else(|| *rng.pick(UTF8_UNITS));
        if pos + u.len() > want {
            break;
        }
        field[pos..pos + u.len()].copy_from_slice(u.as_bytes());
        pos += u.len();
        s.push_str(u);
        if pos == want {
            break;
        }
    }
    field[pos] = 0;
    s
}

/// Expected values of the Game Start fields the model constrained (strings).
#[derive(Clone, Debug, Default)]
pub struct StartStrings {
    pub name_tags: [Option<String>; 4],
    pub netplay_names: [Option<String>; 4],
    pub connect_codes: [Option<String>; 4],
    pub suids: [Option<String>; 4],
    pub match_id: Option<String>,
}

pub fn build_start(spec: &RecorderSpec) -> (Vec<u8>, StartStrings) {
    use L::gs::*;
    let v = (spec.version[0], spec.version[1]);
    let extra = spec.extras.trailing.get(&L::CODE_START).copied().unwrap_or(0) as usize;
    let base = L::start_size(v);
    let mut rng = Rng::new(spec.start_pseed);
    let mut s = vec![0u8; 1 + base + extra];
    rng.fill(&mut s[1..1 + base]);
    if extra > 0 {
        Rng::new(mix_seed(spec.extras.trailing_pseed, 0x36)).fill(&mut s[1 + base..]);
    }
    s[0] = L::CODE_START;
    s[VERSION] = spec.version[0];
    s[VERSION + 1] = spec.version[1];
    s[VERSION + 2] = spec.version[2];
    s[IS_TEAMS] = if spec.teams { 1 + rng.below(255) as u8 } else { 0 };
    // is_raining_bombs: any byte (left random, but make 0 reasonably common)
    if rng.chance(1, 2) {
        s[IS_RAINING_BOMBS] = 0;
    }
    let mut strings = StartStrings::default();
    for p in 0..4usize {
        let pb = PLAYERS + p * PLAYER_STRIDE;
        match spec.ports.iter().find(|x| x.port as usize == p) {
            Some(ps) => {
                s[pb + P_TYPE] = ps.ptype;
                if ps.ics {
                    s[pb + P_CHARACTER] = 14;
                } else if s[pb + P_CHARACTER] == 14 {
                    s[pb + P_CHARACTER] = 15;
                }
            }
            None => {
                s[pb + P_TYPE] = spec.empty_types[p].max(3);
            }
        }
    }
    if L::gte(v, (1, 0)) {
        for p in 0..4usize {
            let o = UCF + 8 * p;
            let a = rng.below(3) as u32;
            let b = rng.below(3) as u32;
            s[o..o + 4].copy_from_slice(&a.to_be_bytes());
            s[o + 4..o + 8].copy_from_slice(&b.to_be_bytes());
        }
    }
    if L::gte(v, (1, 3)) {
        for p in 0..4usize {
            let o = NAME_TAG + 16 * p;
            strings.name_tags[p] = Some(fill_sjis(&mut rng, &mut s[o..o + 16]));
        }
    }
    if L::gte(v, (1, 5)) && rng.chance(1, 2) {
        s[IS_PAL] = 0;
    }
    if L::gte(v, (2, 0)) && rng.chance(1, 2) {
        s[IS_FROZEN_PS] = 0;
    }
    if L::gte(v, (3, 9)) {
        for p in 0..4usize {
            let o = NETPLAY_NAME + 31 * p;
            strings.netplay_names[p] = Some(fill_sjis(&mut rng, &mut s[o..o + 31]));
            let o = CONNECT_CODE + 10 * p;
            strings.connect_codes[p] = Some(fill_sjis(&mut rng, &mut s[o..o + 10]));
        }
    }
    if L::gte(v, (3, 11)) {
        for p in 0..4usize {
            let o = SLIPPI_UID + 29 * p;
            strings.suids[p] = Some(fill_utf8z(&mut rng, &mut s[o..o + 29]));
        }
    }
    if L::gte(v, (3, 12)) {
        s[LANGUAGE] = rng.below(2) as u8;
    }
    if L::gte(v, (3, 14)) {
        strings.match_id = Some(fill_utf8z(&mut rng, &mut s[MATCH_ID..MATCH_ID + 51]));
    }
    if spec.empty_garbage {
        for p in 0..4usize {
            if spec.ports.iter().any(|x| x.port as usize == p) {
                continue;
            }
            let mut g = Rng::new(mix_seed(spec.start_pseed, 0xE0 + p as u64));
            let mut junk = |s: &mut Vec<u8>, o: usize, n: usize| {
                g.fill(&mut s[o..o + n]);
                // make sure it is not accidentally decodable: 0xFF is neither UCF 0..2, Shift-JIS nor UTF-8
                s[o + g.usize_below(n)] = 0xFF;
                if s[o] == 0 {
                    s[o] = 0xFF;
                }
            };
            if L::gte(v, (1, 0)) {
                junk(&mut s, UCF + 8 * p, 8);
            }
            if L::gte(v, (1, 3)) {
                junk(&mut s, NAME_TAG + 16 * p, 16);
                strings.name_tags[p] = None;
            }
            if L::gte(v, (3, 9)) {
                junk(&mut s, NETPLAY_NAME + 31 * p, 31);
                junk(&mut s, CONNECT_CODE + 10 * p, 10);
                strings.netplay_names[p] = None;
                strings.connect_codes[p] = None;
            }
            if L::gte(v, (3, 11)) {
                junk(&mut s, SLIPPI_UID + 29 * p, 29);
                strings.suids[p] = None;
            }
        }
    }
    (s, strings)
}

pub fn build_end(spec: &RecorderSpec) -> Vec<u8> {
    let v = (spec.version[0], spec.version[1]);
    let extra = spec.extras.trailing.get(&L::CODE_END).copied().unwrap_or(0) as usize;
    let base = L::end_size(v);
    let mut rng = Rng::new(spec.end_pseed);
    let mut e = vec![0u8; 1 + base + extra];
    rng.fill(&mut e[1..1 + base]);
    if extra > 0 {
        Rng::new(mix_seed(spec.extras.trailing_pseed, 0x39)).fill(&mut e[1 + base..]);
    }
    e[0] = L::CODE_END;
    e[L::ge::METHOD] = *rng.pick(&[0u8, 1, 2, 3, 7]);
    if base >= 2 {
        e[L::ge::LRAS] = *rng.pick(&[0u8, 1, 2, 3, 255, 255]);
    }
    if base >= 6 {
        for k in 0..4 {
            e[L::ge::PLACEMENTS + k] = *rng.pick(&[0xFFu8, 0, 1, 2, 3]);
        }
    }
    e
}

pub fn encode_tree(out: &mut Vec<u8>, t: &Tree) {
    for (k, v) in t {
        out.push(b'U');
        out.push(k.len() as u8);
        out.extend_from_slice(k.as_bytes());
        match v {
            Node::Str(s) => {
                out.push(b'S');
                out.push(b'U');
                out.push(s.len() as u8);
                out.extend_from_slice(s.as_bytes());
            }
            Node::Int(i) => {
                out.push(b'l');
                out.extend_from_slice(&i.to_be_bytes());
            }
            Node::Map(m) => {
                out.push(b'{');
                encode_tree(out, m);
                out.push(b'}');
            }
        }
    }
}

pub const FILE_SIG: [u8; 11] = [0x7b, 0x55, 0x03, 0x72, 0x61, 0x77, 0x5b, 0x24, 0x55, 0x23, 0x6c];
pub const META_KEY: [u8; 11] = [0x55, 0x08, 0x6d, 0x65, 0x74, 0x61, 0x64, 0x61, 0x74, 0x61, 0x7b];

/// Make the spec satisfy the recorder envelope (DESIGN §3) so that generator
/// and minimiser need not: sorted distinct ports, pre-2.2 id sequence and
/// non-empty occurrences, no follower bits without ICs, no items before 3.0,
/// no Gecko before 3.3.
pub fn normalise(spec: &mut RecorderSpec) {
    spec.ports.sort_by_key(|p| p.port);
    spec.ports.dedup_by_key(|p| p.port);
    spec.ports.retain(|p| p.port < 4);
    for p in &mut spec.ports {
        if p.ptype > 2 {
            p.ptype = 0;
        }
    }
    let v = (spec.version[0], spec.version[1]);
    let mut mask = 0u8;
    for (slot, p) in spec.ports.iter().enumerate() {
        mask |= 1 << (2 * slot);
        if p.ics {
            mask |= 1 << (2 * slot + 1);
        }
    }
    let pre22 = !L::gte(v, (2, 2));
    for (k, f) in spec.frames.iter_mut().enumerate() {
        f.present &= mask;
        if !L::gte(v, (3, 0)) {
            f.items = 0;
        }
        if pre22 {
            f.id = -123 + k as i32;
            if f.present == 0 {
                f.present = mask & (!mask + 1); // lowest set bit
            }
        }
    }
    if pre22 && spec.ports.is_empty() {
        spec.frames.clear();
    }
    if !L::gte(v, (3, 3)) && !spec.force_gecko {
        spec.gecko = None;
    }
    if let Some(g) = &mut spec.gecko {
        // (a list whose length is a multiple of 65536 is legal: its table entry, which keeps only the low 16
        // bits, is then 0 — the one entry of the table that may be)
        if g.len == 0 {
            g.len = 1;
        }
    }
    for e in spec.empty_types.iter_mut() {
        if *e < 3 {
            *e = 3;
        }
    }
}

pub fn build(spec: &RecorderSpec) -> Model {
    let mut spec = spec.clone();
    normalise(&mut spec);
    let spec = &spec;
    let v = (spec.version[0], spec.version[1]);
    let has_fstart = L::gte(v, (2, 2));
    let has_fend = L::gte(v, (3, 0));
    let tr = |code: u8| spec.extras.trailing.get(&code).copied().unwrap_or(0) as usize;

    let (start, _) = build_start(spec);
    let end = match spec.end {
        EndKind::None => None,
        _ => Some(build_end(spec)),
    };
    let end_size_for_table = end.as_ref().map_or(L::end_size(v) + tr(L::CODE_END), |e| e.len() - 1);

    // Gecko
    let gecko = spec.gecko.as_ref().map(|g| {
        let mut rng = Rng::new(g.pseed);
        let blocks = (g.len as usize + 511) / 512;
        let mut b = vec![0u8; blocks * 512];
        rng.fill(&mut b);
        (b, g.len)
    });

    // payload table
    let mut table: Vec<(u8, u16)> = vec![
        (L::CODE_START, (start.len() - 1) as u16),
        (L::CODE_PRE, (L::payload_size(Kind::Pre, v) + tr(L::CODE_PRE)) as u16),
        (L::CODE_POST, (L::payload_size(Kind::Post, v) + tr(L::CODE_POST)) as u16),
        (L::CODE_END, end_size_for_table as u16),
    ];
    if has_fstart {
        table.push((L::CODE_FSTART, (L::payload_size(Kind::FStart, v) + tr(L::CODE_FSTART)) as u16));
    }
    if has_fend {
        table.push((L::CODE_ITEM, (L::payload_size(Kind::Item, v) + tr(L::CODE_ITEM)) as u16));
        table.push((L::CODE_FEND, (L::payload_size(Kind::FEnd, v) + tr(L::CODE_FEND)) as u16));
    }
    if let Some((_, actual)) = &gecko {
        table.push((L::CODE_GECKO, *actual as u16));
        table.push((L::CODE_SPLITTER, (516 + tr(L::CODE_SPLITTER)) as u16));
    }
    for u in &spec.extras.unknown {
        if !table.iter().any(|(c, _)| *c == u.code) && !L::KNOWN_CODES.contains(&u.code) {
            // (size 0 is legal: an event that is nothing but its command byte)
            table.push((u.code, u.size));
        }
    }
    let splitter_ok = L::gte(v, (3, 3));
    if splitter_ok && spec.extras.unknown.iter().any(|u| u.split && !u.after.is_empty()) && !table.iter().any(|(c, _)| *c == L::CODE_SPLITTER) {
        table.push((L::CODE_SPLITTER, (516 + tr(L::CODE_SPLITTER)) as u16));
    }

    for (c, sz) in &spec.extras.phantom {
        if !table.iter().any(|(k, _)| k == c) && *sz > 0 && *c != L::CODE_PAYLOADS {
            table.push((*c, *sz));
        }
    }

    // base events (typed), then unknown insertion, then encoding
    struct Pending {
        bytes: Vec<u8>,
        occ: Option<usize>,
        what: What,
    }
    let mut base: Vec<Pending> = vec![];
    base.push(Pending { bytes: start.clone(), occ: None, what: What::Start });
    if let Some((gb, actual)) = &gecko {
        let blocks = gb.len() / 512;
        let mut remaining = *actual as usize;
        for k in 0..blocks {
            let mut ev = Vec::with_capacity(517);
            ev.push(L::CODE_SPLITTER);
            ev.extend_from_slice(&gb[k * 512..(k + 1) * 512]);
            let this = remaining.min(512);
            remaining -= this;
            ev.extend_from_slice(&(this as u16).to_be_bytes());
            ev.push(L::CODE_GECKO);
            let last = k + 1 == blocks;
            ev.push(last as u8);
            if tr(L::CODE_SPLITTER) > 0 {
                // a newer version's longer splitter payload
                let mut x = vec![0u8; tr(L::CODE_SPLITTER)];
                Rng::new(mix_seed(spec.extras.trailing_pseed, 0x1000 + k as u64)).fill(&mut x);
                ev.extend_from_slice(&x);
            }
            base.push(Pending { bytes: ev, occ: None, what: What::Gecko { last } });
        }
    }

    let mut occs: Vec<Occ> = vec![];
    let mut perm_rng = spec.irregular.perm_pseed.map(Rng::new);
    // last payloads per character, for "sticky" repeats
    let mut last_pre: BTreeMap<(usize, bool), Vec<u8>> = BTreeMap::new();
    let mut last_post: BTreeMap<(usize, bool), Vec<u8>> = BTreeMap::new();
    let mut last_fstart: Option<Vec<u8>> = None;
    let mut last_fend: Option<Vec<u8>> = None;
    let restamp = |ev: &mut Vec<u8>, id: i32| ev[1..5].copy_from_slice(&id.to_be_bytes());
    let blank_out = |rng: &mut Rng, ev: &mut Vec<u8>, hdr: usize| {
        let fill = if rng.chance(1, 2) { 0u8 } else { 0xFF };
        for b in ev.iter_mut().skip(hdr) {
            *b = fill;
        }
    };
    for (oi, fs) in spec.frames.iter().enumerate() {
        let mut rng = Rng::new(fs.pseed);
        let mut occ = Occ { id: fs.id, ..Default::default() };
        if has_fstart {
            let mut ev = frame_event(&mut rng, Kind::FStart, v, tr(L::CODE_FSTART), spec.special_rate, fs.id, 0, false);
            if let (true, Some(p)) = (spec.idle, &last_fstart) {
                ev = p.clone();
                restamp(&mut ev, fs.id);
            }
            last_fstart = Some(ev.clone());
            occ.fstart = Some(ev);
        }
        let mut chars: Vec<(usize, bool)> = vec![];
        for (slot, p) in spec.ports.iter().enumerate() {
            if fs.present & (1 << (2 * slot)) != 0 {
                chars.push((slot, false));
            }
            if p.ics && fs.present & (1 << (2 * slot + 1)) != 0 {
                chars.push((slot, true));
            }
        }
        for &(slot, fol) in &chars {
            let port = spec.ports[slot].port;
            let mut pre = frame_event(&mut rng, Kind::Pre, v, tr(L::CODE_PRE), spec.special_rate, fs.id, port, fol);
            let mut post = frame_event(&mut rng, Kind::Post, v, tr(L::CODE_POST), spec.special_rate, fs.id, port, fol);
            if spec.idle {
                if let Some(p) = last_pre.get(&(slot, fol)) {
                    pre = p.clone();
                    restamp(&mut pre, fs.id);
                }
                if let Some(p) = last_post.get(&(slot, fol)) {
                    post = p.clone();
                    restamp(&mut post, fs.id);
                }
            } else if spec.sticky > 0 {
                if let (Some(p), true) = (last_pre.get(&(slot, fol)), rng.below(spec.sticky as u64) == 0) {
                    pre = p.clone();
                    restamp(&mut pre, fs.id);
                }
                if let (Some(p), true) = (last_post.get(&(slot, fol)), rng.below(spec.sticky as u64) == 0) {
                    post = p.clone();
                    restamp(&mut post, fs.id);
                }
            }
            if spec.blank > 0 {
                if rng.below(spec.blank as u64) == 0 {
                    blank_out(&mut rng, &mut pre, 7);
                }
                if rng.below(spec.blank as u64) == 0 {
                    blank_out(&mut rng, &mut post, 7);
                }
            }
            last_pre.insert((slot, fol), pre.clone());
            last_post.insert((slot, fol), post.clone());
            occ.chars.insert((slot, fol), CharData { pre, post });
        }
        let mut items: Vec<Vec<u8>> = vec![];
        if has_fend {
            for _ in 0..fs.items {
                let ev = frame_event(&mut rng, Kind::Item, v, tr(L::CODE_ITEM), spec.special_rate, fs.id, 0, false);
                // an item event may repeat the previous one byte for byte (two identical projectiles, a re-sent event)
                match items.last() {
                    Some(prev) if spec.sticky > 0 && rng.below(spec.sticky as u64 + 1) == 0 => {
                        let p: Vec<u8> = prev.clone();
                        items.push(p)
                    }
                    _ => items.push(ev),
                }
            }
            let mut ev = frame_event(&mut rng, Kind::FEnd, v, tr(L::CODE_FEND), spec.special_rate, fs.id, 0, false);
            if let (true, Some(p)) = (spec.idle, &last_fend) {
                ev = p.clone();
                restamp(&mut ev, fs.id);
            }
            last_fend = Some(ev.clone());
            occ.fend = Some(ev);
        }
        // emission order
        if let Some(e) = &occ.fstart {
            base.push(Pending { bytes: e.clone(), occ: Some(oi), what: What::FStart });
        }
        // middle events
        #[derive(Clone)]
        enum Mid {
            Pre(usize, bool),
            Post(usize, bool),
            Item(usize),
        }
        let mut mids: Vec<Mid> = vec![];
        for &(s, f) in &chars {
            mids.push(Mid::Pre(s, f));
        }
        for k in 0..items.len() {
            mids.push(Mid::Item(k));
        }
        for &(s, f) in &chars {
            mids.push(Mid::Post(s, f));
        }
        if let Some(pr) = perm_rng.as_mut() {
            // random linear extension of "pre(c) before post(c)"
            let mut remaining = mids.clone();
            let mut out: Vec<Mid> = vec![];
            let mut done_pre: Vec<(usize, bool)> = vec![];
            while !remaining.is_empty() {
                let eligible: Vec<usize> = remaining
                    .iter()
                    .enumerate()
                    .filter(|(_, m)| match m {
                        Mid::Post(s, f) => done_pre.contains(&(*s, *f)),
                        // before 2.2 the first event of an occurrence must be a Pre (it opens the frame)
                        Mid::Item(_) => true,
                        Mid::Pre(..) => true,
                    })
                    .map(|(i, _)| i)
                    .collect();
                let pick = eligible[pr.usize_below(eligible.len())];
                let m = remaining.remove(pick);
                if let Mid::Pre(s, f) = &m {
                    done_pre.push((*s, *f));
                }
                out.push(m);
            }
            mids = out;
        }
        let mut item_order: Vec<Vec<u8>> = vec![];
        for m in mids {
            match m {
                Mid::Pre(s, f) => base.push(Pending {
                    bytes: occ.chars[&(s, f)].pre.clone(),
                    occ: Some(oi),
                    what: What::Pre { slot: s, follower: f },
                }),
                Mid::Post(s, f) => base.push(Pending {
                    bytes: occ.chars[&(s, f)].post.clone(),
                    occ: Some(oi),
                    what: What::Post { slot: s, follower: f },
                }),
                Mid::Item(k) => {
                    base.push(Pending {
                        bytes: items[k].clone(),
                        occ: Some(oi),
                        what: What::Item { k: item_order.len() },
                    });
                    item_order.push(items[k].clone());
                }
            }
        }
        occ.items = item_order;
        if let Some(e) = &occ.fend {
            base.push(Pending { bytes: e.clone(), occ: Some(oi), what: What::FEnd });
        }
        occs.push(occ);
    }
    if end.is_none() && spec.cut_last_frame > 0 && !occs.is_empty() {
        let last = occs.len() - 1;
        let in_last = base.iter().filter(|p| p.occ == Some(last)).count();
        let drop = (spec.cut_last_frame as usize).min(in_last.saturating_sub(1));
        for _ in 0..drop {
            base.pop();
        }
    }
    let n_before_end = base.len();
    if let Some(e) = &end {
        base.push(Pending { bytes: e.clone(), occ: None, what: What::End { dup: false } });
        if spec.end == EndKind::Double {
            base.push(Pending { bytes: e.clone(), occ: None, what: What::End { dup: true } });
        }
    }

    // unknown event instances: after base event k (clamped to before the first Game End)
    // (event bytes, Some((wrapped code, is last block)) for splitter blocks)
    let mut inserts: BTreeMap<usize, Vec<(Vec<u8>, Option<(u8, bool)>)>> = BTreeMap::new();
    for u in &spec.extras.unknown {
        if !table.iter().any(|(c, s)| *c == u.code && *s == u.size) || L::KNOWN_CODES.contains(&u.code) {
            continue;
        }
        let mut rng = Rng::new(u.pseed);
        for &k in &u.after {
            // positions >= 1_000_000 mean "after the last Game End, still inside the raw element"
            let mut k = if k >= 1_000_000 { usize::MAX } else { (k as usize).min(n_before_end - 1) };
            if u.split && splitter_ok {
                // a split message never starts inside another one
                if k != usize::MAX && matches!(base[k].what, What::Gecko { last: false }) {
                    k = 0;
                }
                let total = u.size as usize;
                // (an empty message still takes one, final, block)
                let blocks = ((total + 511) / 512).max(1);
                let mut remaining = total;
                for b in 0..blocks {
                    let mut ev = vec![0u8; 1 + 516];
                    ev[0] = L::CODE_SPLITTER;
                    rng.fill(&mut ev[1..513]);
                    let this = remaining.min(512);
                    remaining -= this;
                    ev[513..515].copy_from_slice(&(this as u16).to_be_bytes());
                    ev[515] = u.code;
                    let last = b + 1 == blocks;
                    ev[516] = last as u8;
                    if tr(L::CODE_SPLITTER) > 0 {
                        let mut x = vec![0u8; tr(L::CODE_SPLITTER)];
                        rng.fill(&mut x);
                        ev.extend_from_slice(&x);
                    }
                    inserts.entry(k).or_default().push((ev, Some((u.code, last))));
                }
                continue;
            }
            let mut ev = vec![0u8; 1 + u.size as usize];
            rng.fill(&mut ev[1..]);
            ev[0] = u.code;
            inserts.entry(k).or_default().push((ev, None));
        }
    }

    // encode
    let mut bytes: Vec<u8> = vec![];
    bytes.extend_from_slice(&FILE_SIG);
    bytes.extend_from_slice(&[0, 0, 0, 0]); // patched below
    let mut events: Vec<Ev> = vec![];
    let tlen = 2 + 3 * table.len();
    events.push(Ev { code: L::CODE_PAYLOADS, off: bytes.len(), len: tlen, occ: None, what: What::Payloads });
    bytes.push(L::CODE_PAYLOADS);
    bytes.push((3 * table.len() + 1) as u8);
    for (c, s) in &table {
        bytes.push(*c);
        bytes.extend_from_slice(&s.to_be_bytes());
    }
    let n_base = base.len();
    for (k, p) in base.into_iter().enumerate() {
        events.push(Ev { code: p.bytes[0], off: bytes.len(), len: p.bytes.len(), occ: p.occ, what: p.what });
        bytes.extend_from_slice(&p.bytes);
        if let Some(list) = inserts.get(&k) {
            for (u, sp) in list {
                let what = sp.map_or(What::Unknown, |(code, last)| What::SplitUnknown { last, code });
                events.push(Ev { code: u[0], off: bytes.len(), len: u.len(), occ: None, what });
                bytes.extend_from_slice(u);
            }
        }
        if k + 1 == n_base && end.is_some() {
            if let Some(list) = inserts.get(&usize::MAX) {
                for (u, sp) in list {
                    let what = sp.map_or(What::Unknown, |(code, last)| What::SplitUnknown { last, code });
                    events.push(Ev { code: u[0], off: bytes.len(), len: u.len(), occ: None, what });
                    bytes.extend_from_slice(u);
                }
            }
        }
    }
    if spec.irregular.junk_after_end > 0 && end.is_some() {
        let mut rng = Rng::new(spec.irregular.junk_pseed);
        let mut junk = vec![0u8; spec.irregular.junk_after_end as usize];
        rng.fill(&mut junk);
        // odd junk seeds produce junk that starts like a Game End event (a look-alike of the doubled-end quirk)
        if spec.irregular.junk_pseed % 2 == 1 {
            junk[0] = L::CODE_END;
        }
        bytes.extend_from_slice(&junk);
    }
    let raw_end = bytes.len();
    let raw_len = raw_end - HEADER_LEN;
    if !spec.raw_len_zero {
        bytes[11..15].copy_from_slice(&(raw_len as u32).to_be_bytes());
    }
    if let Some(t) = &spec.metadata {
        bytes.extend_from_slice(&META_KEY);
        encode_tree(&mut bytes, t);
        bytes.push(b'}');
    }
    bytes.push(b'}');

    Model {
        version: spec.version,
        v,
        ports: spec.ports.clone(),
        start,
        occs,
        gecko,
        end,
        double_end: spec.end == EndKind::Double,
        metadata: spec.metadata.clone(),
        events,
        table,
        bytes,
        raw_len,
        raw_end,
    }
}

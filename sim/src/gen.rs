//! Scenario generation (swarm style): the only place the PRNG is consumed for
//! structure. Every run first draws a configuration of the generator itself.

use crate::layout::{self as L};
use crate::prng::Rng;
use crate::spec::*;
use std::collections::BTreeMap;

#[derive(Clone, Copy, Debug, PartialEq, Eq)]
pub enum SizeClass {
    Tiny,
    Small,
    Medium,
    Large,
    /// more than 65 536 frames (an untimed game of 18+ minutes)
    Huge,
}

#[derive(Clone, Debug)]
pub struct GenCfg {
    pub max_version: Option<(u8, u8, u8)>,
    pub allow_large: bool,
    pub min_frames: usize,
    pub force_end: bool,
    pub force_version: Option<[u8; 3]>,
    pub size: Option<SizeClass>,
}

impl Default for GenCfg {
    fn default() -> Self {
        GenCfg { max_version: Some((3, 16, 0)), allow_large: false, min_frames: 0, force_end: false, force_version: None, size: None }
    }
}

pub fn gen_version(rng: &mut Rng) -> [u8; 3] {
    let (ma, mi) = match rng.below(100) {
        0..=44 => {
            let g = *rng.pick(L::GATES);
            if rng.chance(1, 3) {
                // immediate predecessor
                if g == (0, 1) {
                    g
                } else if g.1 > 0 {
                    (g.0, g.1 - 1)
                } else if g.0 > 0 {
                    (g.0 - 1, 255)
                } else {
                    g
                }
            } else {
                g
            }
        }
        _ => {
            let ma = rng.below(4) as u8;
            let mi = match ma {
                0 => {
                    let hi = if rng.chance(1, 2) { 20 } else { 255 };
                    rng.range(1, hi) as u8
                }
                3 => rng.range(0, 16) as u8,
                _ => {
                    let hi = if rng.chance(1, 2) { 20 } else { 255 };
                    rng.range(0, hi) as u8
                }
            };
            (ma, mi)
        }
    };
    let (ma, mi) = if (ma, mi) == (0, 0) { (0, 1) } else { (ma, mi) };
    let patch = match rng.below(4) {
        0 => 0,
        1 => 1,
        2 => 255,
        _ => rng.below(256) as u8,
    };
    // 3.16.p with p > 0 exceeds the maximum supported version 3.16.0
    let patch = if (ma, mi) == (3, 16) { 0 } else { patch };
    [ma, mi, patch]
}

const KEY_UNITS: &[&str] = &[
    "startAt", "lastFrame", "players", "names", "netplay", "code", "characters", "playedOn", "consoleNick", "0", "1",
    "18", "a", "", "\u{e9}t\u{e9}", "\u{30b9}\u{30de}\u{30d6}\u{30e9}", "key with space", "\u{1F600}",
];
/// keys that (de)serialisers use internally as private markers: in a replay they are ordinary text
const RESERVED_KEYS: &[&str] = &[
    "$serde_json::private::RawValue",
    "$serde_json::private::Number",
    "$__toml_private_datetime",
    "$__serde_spanned_private_start",
    "__proto__",
    "$type",
];
const RESERVED_VALUES: &[&str] = &["7", "-1", "1e999", "{}", "[1]", "null", "not json", "\"x\"", "1.5", ""];
const STR_UNITS: &[&str] = &["\u{feff}", "a", "B", "7", " ", "-", ":", "\u{e9}", "\u{3042}", "\u{1F600}", "\"", "\\", "\n", "\u{0}", "\u{7f}"];

fn gen_string(rng: &mut Rng, max_bytes: usize) -> String {
    // a byte-order mark at the very start of a string is ordinary content, not an encoding signature
    if max_bytes >= 8 && rng.chance(1, 25) {
        let mut s = String::from("\u{feff}");
        s.push_str(&gen_string_inner(rng, max_bytes - 3));
        return s;
    }
    gen_string_inner(rng, max_bytes)
}

fn gen_string_inner(rng: &mut Rng, max_bytes: usize) -> String {
    let want = match rng.below(10) {
        0 => 0,
        1 => max_bytes,
        2..=3 => rng.usize_below(max_bytes + 1),
        _ => rng.usize_below(24),
    };
    let mut s = String::new();
    loop {
        let u = *rng.pick(STR_UNITS);
        if s.len() + u.len() > want {
            break;
        }
        s.push_str(u);
    }
    s
}

pub fn gen_tree(rng: &mut Rng, depth: u32, wide: bool) -> Tree {
    let width = if wide && rng.chance(1, 10) { rng.usize_below(41) } else { rng.usize_below(6) };
    let mut t: Tree = vec![];
    for i in 0..width {
        let mut k = if rng.chance(1, 6) { gen_string(rng, 255) } else { (*rng.pick(KEY_UNITS)).to_string() };
        if t.iter().any(|(kk, _)| *kk == k) {
            k = format!("{}#{}", k, i);
            if k.len() > 255 || t.iter().any(|(kk, _)| *kk == k) {
                continue;
            }
        }
        if rng.chance(1, 30) {
            // a map whose first (often only) key is such a marker, with a string that looks like its payload
            let mut inner: Tree = vec![((*rng.pick(RESERVED_KEYS)).to_string(), Node::Str((*rng.pick(RESERVED_VALUES)).to_string()))];
            if rng.chance(1, 3) {
                inner.push(("a".to_string(), Node::Int(1)));
            }
            if rng.chance(1, 4) {
                // at this level instead of one below
                let (rk, rv) = inner.remove(0);
                if !t.iter().any(|(kk, _)| *kk == rk) {
                    t.push((rk, rv));
                }
            } else {
                t.push((k, Node::Map(inner)));
            }
            continue;
        }
        let node = match rng.below(10) {
            0..=3 => Node::Str(gen_string(rng, 255)),
            4..=6 => Node::Int(match rng.below(8) {
                0 => i32::MIN,
                1 => -1,
                2 => i32::MAX,
                3 => 0,
                4 => -123,
                _ => rng.next_u32() as i32,
            }),
            _ => {
                if depth == 0 {
                    Node::Map(vec![])
                } else {
                    Node::Map(gen_tree(rng, depth - 1, false))
                }
            }
        };
        t.push((k, node));
    }
    t
}

/// The tree a real recorder writes: `startAt`, `lastFrame`, `players.<port>.names.{netplay,code}`,
/// `players.<port>.characters.<id>`, `playedOn` (sometimes `consoleNick`). The names it carries are
/// the recorder's own copy and need not agree with anything in Game Start.
pub fn gen_recorder_tree(rng: &mut Rng, ports: &[PortSpec], last_frame: i32) -> Tree {
    let mut players: Tree = vec![];
    for p in ports {
        if rng.chance(1, 8) {
            continue;
        }
        let mut pl: Tree = vec![];
        if rng.chance(5, 6) {
            let name = if rng.chance(1, 6) { String::new() } else { gen_string(rng, 30) };
            let code = if rng.chance(1, 6) { String::new() } else { format!("{}#{}", rng.pick(&["ABCD", "XY", "ＡＢ", "q"]), rng.below(1000)) };
            let mut names: Tree = vec![("netplay".to_string(), Node::Str(name)), ("code".to_string(), Node::Str(code))];
            if rng.chance(1, 5) {
                names.swap(0, 1);
            }
            pl.push(("names".to_string(), Node::Map(names)));
        }
        let mut chars: Tree = vec![];
        for _ in 0..1 + rng.below(2) {
            let k = format!("{}", rng.below(33));
            if !chars.iter().any(|(kk, _)| *kk == k) {
                chars.push((k, Node::Int(rng.below(30000) as i32)));
            }
        }
        pl.push(("characters".to_string(), Node::Map(chars)));
        players.push((format!("{}", p.port), Node::Map(pl)));
    }
    let mut t: Tree = vec![
        ("startAt".to_string(), Node::Str(format!("20{:02}-{:02}-{:02}T{:02}:{:02}:{:02}Z", rng.below(40), 1 + rng.below(12), 1 + rng.below(28), rng.below(24), rng.below(60), rng.below(60)))),
        ("lastFrame".to_string(), Node::Int(last_frame)),
        ("players".to_string(), Node::Map(players)),
        ("playedOn".to_string(), Node::Str((*rng.pick(&["dolphin", "nintendont", "network", "console"])).to_string())),
    ];
    if rng.chance(1, 3) {
        t.push(("consoleNick".to_string(), Node::Str(gen_string(rng, 30))));
    }
    t
}

/// Many maps in total (more than any nesting limit) while staying shallow.
pub fn gen_many_maps(rng: &mut Rng, total: usize) -> Tree {
    let mut t: Tree = vec![];
    let mut left = total;
    let mut k = 0;
    while left > 0 {
        let inner = rng.usize_below(4).min(left.saturating_sub(1));
        let mut m: Tree = vec![];
        for j in 0..inner {
            m.push((format!("m{}", j), Node::Map(if rng.chance(1, 3) { vec![("v".to_string(), Node::Int(j as i32))] } else { vec![] })));
        }
        left -= 1 + inner;
        t.push((format!("k{}", k), Node::Map(m)));
        k += 1;
    }
    t
}

/// A tree whose JSON rendering exceeds `bytes` (many long strings; each within the 255-byte limit).
pub fn gen_big_tree(rng: &mut Rng, bytes: usize) -> Tree {
    let mut t: Tree = vec![];
    let mut total = 0usize;
    let mut k = 0usize;
    while total < bytes {
        let mut s = String::new();
        let len = 200 + rng.usize_below(56);
        while s.len() < len {
            s.push((b'a' + rng.below(26) as u8) as char);
        }
        total += s.len() + 12;
        t.push((format!("note{}", k), Node::Str(s)));
        k += 1;
    }
    t
}

/// A deep, narrow chain (depth up to `d`) to exercise nesting.
pub fn gen_chain(rng: &mut Rng, d: u32) -> Tree {
    let mut t: Tree = vec![("leaf".to_string(), Node::Int(rng.next_u32() as i32))];
    // one chain in three uses one-byte keys throughout (a reader then issues nothing but one-byte reads on the way down)
    let short = rng.chance(1, 3);
    for i in 0..d {
        let key = if short { ((b'a' + (i % 7) as u8) as char).to_string() } else { format!("n{}", i % 7) };
        t = vec![(key, Node::Map(t))];
    }
    t
}

pub fn gen_ports(rng: &mut Rng) -> Vec<PortSpec> {
    let n = match rng.below(10) {
        0..=1 => 1,
        2..=6 => 2,
        7 => 3,
        _ => 4,
    };
    let mut avail: Vec<u8> = vec![0, 1, 2, 3];
    let mut ports = vec![];
    for _ in 0..n {
        let i = rng.usize_below(avail.len());
        let port = avail.remove(i);
        ports.push(PortSpec { port, ptype: *rng.pick(&[0u8, 0, 0, 1, 1, 2]), ics: rng.chance(1, 4) });
    }
    ports.sort_by_key(|p| p.port);
    ports
}

pub fn gen_frames(rng: &mut Rng, v: (u8, u8), ports: &[PortSpec], n: usize) -> Vec<FrameSpec> {
    let mut mask = 0u8;
    for (slot, p) in ports.iter().enumerate() {
        mask |= 1 << (2 * slot);
        if p.ics {
            mask |= 1 << (2 * slot + 1);
        }
    }
    let absence = *rng.pick(&[0u64, 0, 5, 25, 50]); // percent
    let rollback = if L::gte(v, (2, 2)) { *rng.pick(&[0u64, 0, 5, 20]) } else { 0 };
    let jumps = L::gte(v, (2, 2)) && rng.chance(1, 5);
    let item_class = if L::gte(v, (3, 0)) { rng.below(4) } else { 0 };
    let mut frames = vec![];
    // from 2.2 on ids are whatever the recorder says; a few recordings start just below -123
    let mut id: i32 = if jumps && rng.chance(1, 4) { -123 - 1 - rng.below(3) as i32 } else { -123 };
    let mut k = 0;
    while k < n {
        let mut present = 0u8;
        for b in 0..8 {
            if mask & (1 << b) != 0 && rng.below(100) >= absence {
                present |= 1 << b;
            }
        }
        let items: u16 = match item_class {
            0 => 0,
            1 => {
                if rng.chance(1, 10) {
                    1 + rng.below(2) as u16
                } else {
                    0
                }
            }
            2 => rng.below(4) as u16,
            _ => {
                if rng.chance(1, 20) {
                    // bursts well beyond anything the fixtures contain (the busiest fixture frame has 7 items);
                    // now and then past what an 8-bit counter can hold
                    if rng.chance(1, 12) {
                        250 + rng.below(60) as u16
                    } else {
                        8 + rng.below(40) as u16
                    }
                } else {
                    rng.below(6) as u16
                }
            }
        };
        frames.push(FrameSpec { id, present, items, pseed: rng.next_u64() });
        k += 1;
        // next id
        if rollback > 0 && rng.below(100) < rollback {
            let depth = 1 + rng.below(7) as i32;
            id = (id.saturating_sub(depth)).max(-123).min(id);
            if rng.chance(1, 4) {
                // replay the same id again (depth-0 rollback)
            } else {
                id = id.saturating_add(0);
            }
        } else if jumps && rng.chance(1, 50) {
            id = match rng.below(8) {
                0 => i32::MIN,
                1 => i32::MAX,
                2 => 0,
                // just below the first frame number a game normally produces
                3 => -124,
                4 => -125 - rng.below(3) as i32,
                _ => rng.next_u32() as i32,
            };
        } else {
            id = id.wrapping_add(1);
        }
    }
    // the recording may END on extreme frame ids (arithmetic on the last id must not overflow)
    if jumps && n > 0 && rng.chance(1, 3) {
        let tail = 1 + rng.usize_below(3.min(n));
        let base = *rng.pick(&[i32::MAX, i32::MAX - 1, i32::MAX - 100, i32::MIN, i32::MIN + 5]);
        for (k, f) in frames.iter_mut().rev().take(tail).enumerate() {
            f.id = base.saturating_sub(k as i32);
        }
    }
    frames
}

pub fn gen_recorder(rng: &mut Rng, cfg: &GenCfg) -> RecorderSpec {
    let version = match cfg.force_version {
        Some(v) => v,
        None => loop {
            let v = gen_version(rng);
            if let Some(max) = cfg.max_version {
                if (v[0], v[1], v[2]) > max {
                    continue;
                }
            }
            break v;
        },
    };
    let v = (version[0], version[1]);
    let ports = gen_ports(rng);
    let size = cfg.size.unwrap_or_else(|| match rng.below(100) {
        0..=19 => SizeClass::Tiny,
        20..=74 => SizeClass::Small,
        75..=98 => SizeClass::Medium,
        _ => SizeClass::Large,
    });
    let n = match size {
        SizeClass::Tiny => rng.usize_below(4),
        SizeClass::Small => 1 + rng.usize_below(40),
        SizeClass::Medium => 41 + rng.usize_below(360),
        // more than 1024 rows crosses the initial column capacity; the quick tier keeps these runs
        // short (just past the boundary), the thorough tier goes to ~4000 rows
        SizeClass::Huge => 65_530 + rng.usize_below(3000),
        SizeClass::Large => {
            if cfg.allow_large {
                1025 + rng.usize_below(3000)
            } else {
                1020 + rng.usize_below(40)
            }
        }
    }
    .max(cfg.min_frames);
    let frames = gen_frames(rng, v, &ports, n);
    let gecko = if L::gte(v, (3, 3)) {
        match rng.below(20) {
            0..=9 => None,
            10..=13 => Some(1 + rng.below(511) as u32),
            14..=15 => Some(512 * (1 + rng.below(3) as u32)),
            16..=17 => Some(513 + rng.below(3000) as u32),
            18 => Some(46160),
            _ => {
                // longer than a 16-bit size can say (the table entry keeps only the low 16 bits)
                if rng.chance(1, 3) {
                    // exactly 2^16 (or 2^17) bytes: the table entry says 0
                    Some(if rng.chance(1, 4) { 131072 } else { 65536 })
                } else if cfg.allow_large || rng.chance(1, 4) {
                    Some(65537 + rng.below(5000) as u32)
                } else {
                    Some(46160)
                }
            }
        }
        .map(|len| GeckoSpec { len, pseed: rng.next_u64() })
    } else {
        None
    };
    let end = if cfg.force_end {
        if rng.chance(1, 4) {
            EndKind::Double
        } else {
            EndKind::Single
        }
    } else {
        match rng.below(10) {
            0..=5 => EndKind::Single,
            6..=7 => EndKind::None,
            _ => EndKind::Double,
        }
    };
    let metadata = match rng.below(20) {
        0..=4 => None,
        5 => Some(vec![]),
        6 => {
            let d = 1 + rng.below(60) as u32;
            Some(gen_chain(rng, d))
        }
        7..=8 => {
            let last = frames.last().map_or(-123, |f: &FrameSpec| f.id);
            Some(gen_recorder_tree(rng, &ports, last))
        }
        _ => Some(gen_tree(rng, 3, true)),
    };
    let mut et = [3u8; 4];
    for e in et.iter_mut() {
        if rng.chance(1, 5) {
            *e = 3 + rng.below(253) as u8;
        }
    }
    RecorderSpec {
        version,
        ports,
        empty_types: et,
        teams: rng.chance(1, 3),
        frames,
        start_pseed: rng.next_u64(),
        gecko,
        end,
        end_pseed: rng.next_u64(),
        metadata,
        extras: Extras::default(),
        irregular: Irregular::default(),
        special_rate: *rng.pick(&[0u8, 3, 8]),
        force_gecko: false,
        raw_len_zero: false,
        sticky: *rng.pick(&[0u8, 0, 2, 5]),
        blank: *rng.pick(&[0u8, 0, 0, 6, 20]),
        idle: false,
        empty_garbage: false,
        cut_last_frame: 0,
    }
}

pub fn gen_eintr(rng: &mut Rng, horizon: u32) -> Vec<u32> {
    let mut v = vec![];
    if rng.chance(2, 5) {
        let bursts = 1 + rng.below(4);
        for _ in 0..bursts {
            let at = rng.below(horizon.max(1) as u64) as u32;
            let len = 1 + rng.below(3) as u32;
            for k in 0..len {
                v.push(at + k);
            }
        }
        v.sort();
        v.dedup();
    }
    v
}

/// Read-side schedule for a file of `len` bytes.
pub fn gen_stream(rng: &mut Rng, len: usize, allow_eintr: bool) -> StreamSpec {
    let mode = match rng.below(20) {
        0..=3 => Frag::Whole,
        4 => {
            if len < 30_000 {
                Frag::One
            } else {
                Frag::Fixed(5)
            }
        }
        5..=8 => Frag::Fixed(*rng.pick(&[2u32, 3, 7, 16, 64, 511, 512, 4096])),
        9..=11 => Frag::Two(rng.below(len.max(1) as u64) as u32),
        12..=15 => Frag::Random(*rng.pick(&[2u32, 8, 64, 1024])),
        _ => Frag::Edge(*rng.pick(&[-1i8, 0, 1])),
    };
    let mode = match mode {
        Frag::Fixed(c) if len > 200_000 && c < 16 => Frag::Fixed(64),
        Frag::Random(m) if len > 200_000 && m < 8 => Frag::Random(64),
        m => m,
    };
    let mut s = StreamSpec {
        mode,
        pseed: rng.next_u64(),
        eintr_calls: if allow_eintr { gen_eintr(rng, 400) } else { vec![] },
        hard_error_call: None,
        hard_error_kind: 0,
        seek_error: false,
        hard_error_offset: None,
        prefix: 0,
        suffix: 0,
        scribble: rng.chance(1, 4),
    };
    // one stream in four is a member of something larger: it does not start at offset 0 and/or
    // other bytes follow the closing brace
    if rng.chance(1, 4) {
        gen_embedding(rng, &mut s);
    }
    s
}

/// Place the replay inside a larger stream: unrelated bytes before and/or after it.
pub fn gen_embedding(rng: &mut Rng, s: &mut StreamSpec) {
    if rng.chance(1, 2) {
        s.prefix = *rng.pick(&[1u32, 2, 3, 6, 7, 8, 15, 16, 100, 4096, 70_000]);
    }
    if rng.chance(1, 3) {
        s.suffix = *rng.pick(&[1u32, 2, 16, 700, 5000]);
    }
}

pub fn gen_sink(rng: &mut Rng, allow_eintr: bool) -> SinkSpec {
    let mode = match rng.below(10) {
        0..=3 => Frag::Whole,
        4 => Frag::One,
        5..=6 => Frag::Fixed(*rng.pick(&[1u32, 2, 3, 7, 100, 512])),
        7 => Frag::Two(rng.below(5000) as u32),
        _ => Frag::Random(*rng.pick(&[2u32, 8, 64, 1024])),
    };
    SinkSpec {
        mode,
        pseed: rng.next_u64(),
        eintr_calls: if allow_eintr { gen_eintr(rng, 2000) } else { vec![] },
        enospc_after: None,
        flush_error: false,
        // only matters where a property fills the sink up
        full_zero: rng.chance(1, 3),
    }
}

pub fn base_spec(property: &str, plan: &str, seed: u64, mut recorder: RecorderSpec) -> ScenarioSpec {
    crate::recorder::normalise(&mut recorder);
    ScenarioSpec {
        property: property.to_string(),
        plan: plan.to_string(),
        seed,
        recorder,
        disk_faults: vec![],
        transport_faults: vec![],
        stream: StreamSpec::default(),
        stream2: StreamSpec::default(),
        sink: SinkSpec::default(),
        live: None,
        opts: OptsSpec::default(),
        api: Api::OneShot,
        compression: Compression::None,
        archive_edits: vec![],
        archive_version: None,
        knobs: BTreeMap::new(),
        log_level: 0,
        debug_dump: false,
    }
}

/// Approximate encoded size, for choosing schedules before building the model.
pub fn approx_len(r: &RecorderSpec) -> usize {
    let v = (r.version[0], r.version[1]);
    let per_char = L::payload_size(L::Kind::Pre, v) + L::payload_size(L::Kind::Post, v) + 2;
    let mut n = 400 + L::start_size(v);
    for f in &r.frames {
        n += (f.present.count_ones() as usize) * per_char + f.items as usize * 45 + 24;
    }
    if let Some(g) = &r.gecko {
        n += ((g.len as usize + 511) / 512) * 517;
    }
    n
}

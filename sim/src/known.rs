//! /verif/KNOWN_FINDINGS: committed, never written at run time.
//!   known: {json}          — a genuine defect recorded rather than repaired
//!   fixed: property=<id> <commit> <what failed>   — suppresses nothing

use crate::report::Violation;
use crate::spec::ScenarioSpec;
use serde::Deserialize;

#[derive(Deserialize, Debug, Clone)]
pub struct Known {
    pub id: String,
    pub property: String,
    pub kind: String,
    #[serde(default)]
    pub site_contains: Option<String>,
    #[serde(default)]
    pub msg_contains: Option<String>,
    /// inclusive (major, minor) range of the replay's version
    #[serde(default)]
    pub version_min: Option<[u8; 2]>,
    #[serde(default)]
    pub version_max: Option<[u8; 2]>,
    /// at most this many occupied ports in the recording
    #[serde(default)]
    pub ports_max: Option<usize>,
    /// the recording stops inside its last frame (RecorderSpec.cut_last_frame > 0)
    #[serde(default)]
    pub cut_last_frame: Option<bool>,
    pub what: String,
}

pub fn path() -> String {
    std::env::var("VERIF_KNOWN").unwrap_or_else(|_| "/verif/KNOWN_FINDINGS".to_string())
}

pub fn load() -> Result<Vec<Known>, String> {
    let p = path();
    let text = match std::fs::read_to_string(&p) {
        Ok(t) => t,
        Err(_) => return Ok(vec![]),
    };
    let mut out = vec![];
    for (ln, line) in text.lines().enumerate() {
        let line = line.trim();
        if let Some(rest) = line.strip_prefix("known:") {
            let k: Known = serde_json::from_str(rest.trim()).map_err(|e| format!("{}:{}: {}", p, ln + 1, e))?;
            out.push(k);
        }
    }
    Ok(out)
}

pub fn matches<'a>(known: &'a [Known], v: &Violation, spec: &ScenarioSpec) -> Option<&'a Known> {
    let ver = (spec.recorder.version[0], spec.recorder.version[1]);
    known.iter().find(|k| {
        k.property == v.property
            && k.kind == v.kind
            && k.site_contains.as_ref().map_or(true, |s| v.site.contains(s.as_str()))
            && k.msg_contains.as_ref().map_or(true, |s| v.message.contains(s.as_str()))
            && k.version_min.map_or(true, |m| ver >= (m[0], m[1]))
            && k.version_max.map_or(true, |m| ver <= (m[0], m[1]))
            && k.ports_max.map_or(true, |n| spec.recorder.ports.len() <= n)
            && k.cut_last_frame.map_or(true, |c| c == (spec.recorder.cut_last_frame > 0 && spec.recorder.end == crate::spec::EndKind::None))
    })
}

//! Allocator budget: while a run is active, any single allocation request
//! above 1 GiB is refused (returns null) — the in-process model of a machine
//! with 1 GiB to spare. Fallible callers see an error; infallible ones abort
//! the worker, which the supervisor reports as a process-fatal violation.

use std::alloc::{GlobalAlloc, Layout, System};
use std::sync::atomic::{AtomicBool, AtomicU64, Ordering};

pub const CAP: usize = 1 << 30;

static ACTIVE: AtomicBool = AtomicBool::new(false);
pub static REFUSED: AtomicU64 = AtomicU64::new(0);

pub fn set_active(on: bool) {
    ACTIVE.store(on, Ordering::SeqCst);
}

pub struct CappedAlloc;

unsafe impl GlobalAlloc for CappedAlloc {
    unsafe fn alloc(&self, layout: Layout) -> *mut u8 {
        if layout.size() > CAP && ACTIVE.load(Ordering::Relaxed) {
            REFUSED.fetch_add(1, Ordering::Relaxed);
            return std::ptr::null_mut();
        }
        System.alloc(layout)
    }
    unsafe fn dealloc(&self, ptr: *mut u8, layout: Layout) {
        System.dealloc(ptr, layout)
    }
    unsafe fn alloc_zeroed(&self, layout: Layout) -> *mut u8 {
        if layout.size() > CAP && ACTIVE.load(Ordering::Relaxed) {
            REFUSED.fetch_add(1, Ordering::Relaxed);
            return std::ptr::null_mut();
        }
        System.alloc_zeroed(layout)
    }
    unsafe fn realloc(&self, ptr: *mut u8, layout: Layout, new_size: usize) -> *mut u8 {
        if new_size > CAP && ACTIVE.load(Ordering::Relaxed) {
            REFUSED.fetch_add(1, Ordering::Relaxed);
            return std::ptr::null_mut();
        }
        System.realloc(ptr, layout, new_size)
    }
}

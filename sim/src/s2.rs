//! Family S2: the incremental parser driven event by event over a live pipe
//! (recorder and parser interleaved) or over a fragmenting stream, with the
//! parser's state compared against the recorder model after every call.

use crate::access::{self, Cell, FrameAccess};
use crate::layout::{self as L, Kind};
use crate::oracle;
use crate::pipeline::*;
use crate::props::common::*;
use crate::recorder::{Model, What};
use crate::report::{guarded, Caught, Ctx, Violation};
use crate::simio::SimStream;
use crate::spec::*;
use peppi::game::Game as GameTrait;
use peppi::io::slippi::de;
use std::collections::BTreeSet;

#[derive(Clone, Copy)]
pub struct Flags {
    /// compare parser state with the model after every call (C03/C04/C12)
    pub model_rows: bool,
    /// compare the row view with the columns for every completed row (C13)
    pub row_view: bool,
    /// codes, bytes_read, frame count monotone, final equivalence with one-shot (C12)
    pub protocol: bool,
    /// final equivalence with the one-shot read
    pub final_equiv: bool,
}

pub fn chunks_for(m: &Model, live: &LiveSpec) -> Vec<usize> {
    let mut v: Vec<usize> = vec![];
    match live.chunking {
        Chunking::Event => {
            for e in &m.events {
                v.push(e.off + e.len);
            }
        }
        Chunking::Frame => {
            let mut last_occ: Option<usize> = None;
            for (i, e) in m.events.iter().enumerate() {
                let next_occ = m.events.get(i + 1).and_then(|n| n.occ);
                let boundary = match (e.occ, next_occ) {
                    (Some(a), Some(b)) => a != b,
                    _ => true,
                };
                if boundary {
                    v.push(e.off + e.len);
                }
                last_occ = e.occ;
            }
            let _ = last_occ;
        }
        Chunking::Flush(n) => {
            let n = n.max(1) as usize;
            let mut p = n;
            while p < m.bytes.len() {
                v.push(p);
                p += n;
            }
        }
    }
    v.push(m.raw_end);
    v.push(m.bytes.len());
    v.sort();
    v.dedup();
    v
}

/// Model-side cursor: what the history says has happened so far.
#[derive(Default)]
struct Cursor {
    opened: usize,
    closed: usize,
    pre_seen: BTreeSet<(usize, bool)>,
    post_seen: BTreeSet<(usize, bool)>,
    last_kind: u8,
    splitting: bool,
    end_seen: bool,
}

impl Cursor {
    fn advance(&mut self, m: &Model, e: &crate::recorder::Ev) {
        self.last_kind = e.code;
        if let Some(o) = e.occ {
            if o + 1 > self.opened {
                // first event of a new occurrence
                if !m.has_fend() {
                    // before 3.0 the previous occurrence is closed when the next one opens
                    self.closed = self.opened;
                }
                self.opened = o + 1;
                self.pre_seen.clear();
                self.post_seen.clear();
            }
        }
        match &e.what {
            What::Pre { slot, follower } => {
                self.pre_seen.insert((*slot, *follower));
            }
            What::Post { slot, follower } => {
                self.post_seen.insert((*slot, *follower));
            }
            What::FEnd => self.closed = self.opened,
            What::Gecko { last } | What::SplitUnknown { last, .. } => self.splitting = !*last,
            What::End { .. } => {
                self.end_seen = true;
                if !m.has_fend() {
                    // the game is over: the last occurrence of a pre-3.0 game is complete as well
                    self.closed = self.opened;
                }
            }
            _ => {}
        }
    }
    fn sig(&self, m: &Model) -> u64 {
        let mut pending = 0u64;
        for (s, f) in &self.pre_seen {
            if !self.post_seen.contains(&(*s, *f)) {
                pending |= 1 << (2 * s + *f as usize);
            }
        }
        let regime = if m.has_fend() { 2 } else if m.has_fstart() { 1 } else { 0 };
        let mut h = crate::prng::mix(0x57A7E, version_class(m.v));
        h = crate::prng::mix(h, regime);
        h = crate::prng::mix(h, self.last_kind as u64);
        h = crate::prng::mix(h, pending);
        h = crate::prng::mix(h, self.splitting as u64 | (self.end_seen as u64) << 1 | ((self.opened > self.closed) as u64) << 2);
        h
    }
}

fn fail_to_v(prop: &str, f: oracle::Fail) -> Violation {
    Violation::new(prop, &f.0, f.1, f.2)
}

/// Row view (transposed frame) of completed row r equals the columns at r.
pub fn check_row_view<F: FrameAccess + ?Sized>(fa: &F, r: usize, fr: &peppi::frame::transpose::Frame, v: (u8, u8)) -> Result<u64, oracle::Fail> {
    let mut n = 0u64;
    let f = |k: &str, s: String, m: String| (k.to_string(), s, m);
    if Some(fr.id) != fa.id_at(r) {
        return Err(f("field-mismatch", "row-view.id".into(), format!("row {}: view {} columns {:?}", r, fr.id, fa.id_at(r))));
    }
    if fr.ports.len() != fa.nports() {
        return Err(f("layout", "row-view.ports".into(), format!("{} vs {}", fr.ports.len(), fa.nports())));
    }
    let gate = |kind: Kind, cells: &[Cell], site: &str| -> Result<(), oracle::Fail> {
        for (i, fld) in L::fields(kind).iter().enumerate() {
            let absent = cells[i] == Cell::NoColumn;
            if absent == L::gte(v, fld.since) {
                return Err((
                    "field-mismatch".to_string(),
                    format!("row-view.{}.{}", site, fld.name),
                    format!("row {}: field {} for version {}.{}", r, if absent { "absent" } else { "present" }, v.0, v.1),
                ));
            }
        }
        Ok(())
    };
    for (slot, pd) in fr.ports.iter().enumerate() {
        let (pn, has_fol) = fa.port(slot);
        if pd.port as u8 != pn {
            return Err(f("layout", format!("row-view.ports[{}].port", slot), format!("{} vs {}", pd.port as u8, pn)));
        }
        if pd.follower.is_some() != has_fol {
            return Err(f("layout", format!("row-view.ports[{}].follower", slot), "presence differs".into()));
        }
        let chars: Vec<(bool, &peppi::frame::transpose::Data)> = std::iter::once((false, &pd.leader)).chain(pd.follower.as_ref().map(|d| (true, d))).collect();
        for (fol, d) in chars {
            let a = access::tr_pre(&d.pre);
            let b = fa.pre(slot, fol, r);
            if a != b {
                let k = a.iter().zip(b.iter()).position(|(x, y)| x != y).unwrap_or(0);
                return Err(f("field-mismatch", format!("row-view.port={}/{}/pre.{}", pn, oracle::who(fol), L::PRE[k].name), format!("row {}: view {:?} column {:?}", r, a[k], b[k])));
            }
            gate(Kind::Pre, &a, "pre")?;
            let a = access::tr_post(&d.post);
            let b = fa.post(slot, fol, r);
            if a != b {
                let k = a.iter().zip(b.iter()).position(|(x, y)| x != y).unwrap_or(0);
                return Err(f("field-mismatch", format!("row-view.port={}/{}/post.{}", pn, oracle::who(fol), L::POST[k].name), format!("row {}: view {:?} column {:?}", r, a[k], b[k])));
            }
            gate(Kind::Post, &a, "post")?;
            n += 2;
        }
    }
    if fr.start.is_some() != fa.has_fstart() || fr.start.is_some() != L::gte(v, (2, 2)) {
        return Err(f("layout", "row-view.start".into(), format!("present {} for version {:?}", fr.start.is_some(), v)));
    }
    if let Some(s) = &fr.start {
        let a = access::tr_fstart(s);
        if a != fa.fstart(r) {
            return Err(f("field-mismatch", "row-view.start".into(), format!("row {}: {:?} vs {:?}", r, a, fa.fstart(r))));
        }
        gate(Kind::FStart, &a, "start")?;
        n += 1;
    }
    if fr.end.is_some() != fa.has_fend() || fr.end.is_some() != L::gte(v, (3, 0)) {
        return Err(f("layout", "row-view.end".into(), format!("present {} for version {:?}", fr.end.is_some(), v)));
    }
    if let Some(e) = &fr.end {
        let a = access::tr_fend(e);
        if a != fa.fend(r) {
            return Err(f("field-mismatch", "row-view.end".into(), format!("row {}: {:?} vs {:?}", r, a, fa.fend(r))));
        }
        gate(Kind::FEnd, &a, "end")?;
        n += 1;
    }
    if fr.items.is_some() != fa.has_items() {
        return Err(f("layout", "row-view.items".into(), "presence differs".into()));
    }
    if let Some(items) = &fr.items {
        let offs = fa.item_offsets().unwrap_or_default();
        if r + 1 >= offs.len() {
            return Err(f("items-mismatch", "row-view.items".into(), format!("row {} has no item offsets", r)));
        }
        let (s, e) = (offs[r] as usize, offs[r + 1] as usize);
        if e < s {
            return Err(f("items-mismatch", "item_offset".into(), format!("row {}: offsets decrease ({} then {})", r, s, e)));
        }
        if items.len() != e - s {
            return Err(f("items-mismatch", "row-view.items".into(), format!("row {}: view has {} items, offsets delimit {}", r, items.len(), e - s)));
        }
        for (k, it) in items.iter().enumerate() {
            let a = access::tr_item(it);
            let b = fa.item(s + k);
            if a != b {
                let j = a.iter().zip(b.iter()).position(|(x, y)| x != y).unwrap_or(0);
                return Err(f("items-mismatch", format!("row-view.item.{}", L::ITEM[j].name), format!("row {} item {}: view {:?} column {:?}", r, k, a[j], b[j])));
            }
            gate(Kind::Item, &a, "item")?;
            n += 1;
        }
    }
    Ok(n)
}

/// Compare the incrementally built (mutable) frames with the one-shot (immutable) ones.
/// `closed` rows are compared fully; a dangling open row only where the mutable side has entries.
fn cmp_incremental_vs_oneshot(a: &peppi::frame::mutable::Frame, b: &peppi::frame::immutable::Frame, closed: usize) -> Result<u64, (String, String)> {
    let mut n = 0;
    if a.rows() != b.rows() {
        return Err(("frames.rows".into(), format!("incremental {} vs one-shot {}", a.rows(), b.rows())));
    }
    if a.nports() != b.nports() {
        return Err(("frames.ports".into(), format!("{} vs {}", a.nports(), b.nports())));
    }
    for r in 0..a.rows() {
        if a.id_at(r) != b.id_at(r) {
            return Err((format!("frames.id row={}", r), format!("{:?} vs {:?}", a.id_at(r), b.id_at(r))));
        }
        let full = r < closed;
        for slot in 0..a.nports() {
            if a.port(slot) != b.port(slot) {
                return Err((format!("ports[{}]", slot), "port identity differs".into()));
            }
            for fol in [false, true] {
                if a.char_len(slot, fol).is_none() {
                    continue;
                }
                let pa = a.char_present(slot, fol, r);
                let pb = b.char_present(slot, fol, r);
                if pa.is_none() && !full {
                    continue; // dangling row: absence is expressed by a shorter column
                }
                if pa != pb {
                    return Err((format!("ports[{}].{}.validity row={}", slot, oracle::who(fol), r), format!("{:?} vs {:?}", pa, pb)));
                }
                if pa == Some(true) {
                    if a.pre(slot, fol, r) != b.pre(slot, fol, r) {
                        return Err((format!("ports[{}].{}.pre row={}", slot, oracle::who(fol), r), "values differ".into()));
                    }
                    if a.post(slot, fol, r) != b.post(slot, fol, r) {
                        return Err((format!("ports[{}].{}.post row={}", slot, oracle::who(fol), r), "values differ".into()));
                    }
                    n += 2;
                }
            }
        }
        if a.has_fstart() && a.fstart(r) != b.fstart(r) {
            return Err((format!("start row={}", r), "values differ".into()));
        }
        if a.has_fend() && full && a.fend(r) != b.fend(r) {
            return Err((format!("end row={}", r), "values differ".into()));
        }
    }
    if a.has_items() {
        let (oa, ob) = (a.item_offsets().unwrap_or_default(), b.item_offsets().unwrap_or_default());
        if oa != ob {
            return Err(("item_offset".into(), format!("{:?} vs {:?}", oa.len(), ob.len())));
        }
        if a.item_count() != b.item_count() {
            return Err(("item.len".into(), format!("{} vs {}", a.item_count(), b.item_count())));
        }
        for k in 0..a.item_count() {
            if a.item(k) != b.item(k) {
                return Err((format!("item[{}]", k), "values differ".into()));
            }
            n += 1;
        }
    }
    Ok(n)
}

pub fn run(spec: &ScenarioSpec, m: &Model, ctx: &mut Ctx, prop: &str, flags: Flags) -> Result<(), Violation> {
    let edges = m.edges();
    let mut stream = match &spec.live {
        Some(l) => SimStream::new_live(&m.bytes, &spec.stream, &edges, l, chunks_for(m, l)),
        None => SimStream::new(&m.bytes, &spec.stream, &edges),
    };
    let dropping = spec.live.as_ref().and_then(|l| l.drop_at).map(|d| d as usize);
    let r = run_inner(spec, m, ctx, prop, flags, &mut stream, dropping);
    ctx.io(&stream.stats);
    ctx.digest_u64(stream.digest);
    ctx.rep.interleavings.append(&mut stream.interleavings);
    if ctx.rep.oplog.is_empty() {
        ctx.rep.oplog = std::mem::take(&mut stream.oplog);
    }
    r
}

fn caught(prop: &str, stage: &str, c: Caught) -> Violation {
    caught_violation(prop, stage, &c)
}

fn run_inner<'a>(
    spec: &ScenarioSpec,
    m: &'a Model,
    ctx: &mut Ctx,
    prop: &str,
    flags: Flags,
    stream: &mut SimStream<'a>,
    dropping: Option<usize>,
) -> Result<(), Violation> {
    let mut dropping = dropping;
    let resume_allowed = spec.knob("resume") != 0;
    let mut resumed = false;
    let mut second: Option<SimStream<'a>> = None;
    // offset (in the file) of the current stream's first byte: 0 until the parser reconnects
    let mut base_off = 0usize;
    let mut stream: &mut SimStream<'a> = stream;
    macro_rules! dropped_before {
        ($pos:expr) => {
            dropping.map_or(false, |d| d < $pos)
        };
    }
    // header
    let hdr = guarded(|| de::parse_header(&mut *stream, None));
    let raw_len = match hdr {
        Ok(Ok(n)) => n as usize,
        Ok(Err(e)) => {
            if stream.hard_error_returned || dropped_before!(15) || (stream.interrupted_returned && is_interrupted(&e)) {
                ctx.fault("connection_drop", dropped_before!(15) as u64);
                return Ok(());
            }
            return Err(Violation::new(prop, "unexpected-err", "parse_header", crate::report::short(&e.to_string(), 200)));
        }
        Err(c) => return Err(caught(prop, "parse_header", c)),
    };
    ctx.check();
    if flags.protocol && raw_len != m.raw_len {
        return Err(Violation::new(prop, "bytes-read-mismatch", "parse_header", format!("raw length {} but the file declares {}", raw_len, m.raw_len)));
    }
    // payloads + start
    let start_ev = &m.events[1];
    let st = guarded(|| de::parse_start(&mut *stream, None));
    let mut state = match st {
        Ok(Ok(s)) => s,
        Ok(Err(e)) => {
            if stream.hard_error_returned || dropped_before!(start_ev.off + start_ev.len) || (stream.interrupted_returned && is_interrupted(&e)) {
                ctx.fault("connection_drop", 1);
                return Ok(());
            }
            return Err(Violation::new(prop, "unexpected-err", "parse_start", crate::report::short(&e.to_string(), 200)));
        }
        Err(c) => return Err(caught(prop, "parse_start", c)),
    };
    ctx.check();
    let consumed = |off: usize| off - crate::recorder::HEADER_LEN;
    if flags.protocol {
        let exp = consumed(start_ev.off + start_ev.len);
        if state.bytes_read() != exp {
            return Err(Violation::new(prop, "bytes-read-mismatch", "parse_start", format!("bytes_read {} but {} raw bytes were consumed", state.bytes_read(), exp)));
        }
        if stream.position() != start_ev.off + start_ev.len {
            return Err(Violation::new(prop, "bytes-read-mismatch", "parse_start", format!("stream position {} but Game Start ends at {}", stream.position(), start_ev.off + start_ev.len)));
        }
    }
    if flags.model_rows {
        oracle::check_shape(m, state.frames()).map_err(|f| fail_to_v(prop, f))?;
    }

    let mut cur = Cursor::default();
    let mut prev_rows = 0usize;
    let mut verified_closed = 0usize;
    let recheck_every = spec.knob("recheck_every").max(0) as usize;
    let mut step = 0usize;
    let mut dropped = false;
    let mut rv_done = 0usize;
    let mut ei = 1usize;
    loop {
        ei += 1;
        if ei >= m.events.len() {
            break;
        }
        let e = &m.events[ei];
        if state.bytes_read() >= raw_len {
            break;
        }
        step += 1;
        let res = guarded(|| de::parse_event(&mut *stream, &mut state, None));
        let code = match res {
            Ok(Ok(c)) => c,
            Ok(Err(err)) => {
                if stream.hard_error_returned {
                    // injected hard I/O error inside this event: it must surface, and the completed part must be intact
                    ctx.probe("hard stream error in the middle of the recording");
                    dropped = true;
                    break;
                }
                if dropped_before!(e.off + e.len) {
                    // connection lost inside this event: the completed part must be intact
                    ctx.fault("connection_drop", 1);
                    ctx.probe("connection lost in the middle of an event");
                    if resume_allowed && !resumed {
                        // the client reconnects and asks for the stream again from the byte count the parser
                        // reports; only what the parser holds survives. The failed event is delivered again.
                        let exp = consumed(e.off);
                        if flags.protocol && state.bytes_read() != exp {
                            return Err(Violation::new(prop, "bytes-read-mismatch", "after-failed-call", format!("after the failed call bytes_read is {} but {} raw bytes belong to completed events", state.bytes_read(), exp)));
                        }
                        let resume_at = crate::recorder::HEADER_LEN + state.bytes_read();
                        if resume_at > m.bytes.len() {
                            return Err(Violation::new(prop, "bytes-read-mismatch", "after-failed-call", "bytes_read points beyond the stream"));
                        }
                        let mut ss = spec.stream.clone();
                        ss.hard_error_call = None;
                        ss.hard_error_offset = None;
                        ss.prefix = 0;
                        ss.suffix = 0;
                        ss.pseed ^= 0x2E5;
                        second = Some(SimStream::new(&m.bytes[resume_at..], &ss, &[]));
                        stream = second.as_mut().unwrap();
                        base_off = resume_at;
                        dropping = None;
                        resumed = true;
                        ctx.probe("parser resumed from bytes_read() after a dropped connection");
                        ei -= 1; // deliver the same event again
                        // characters of the open frame whose events were completed stay as they are
                        continue;
                    }
                    dropped = true;
                    break;
                }
                if stream.interrupted_returned && is_interrupted(&err) {
                    ctx.skip("parse_event surfaced Interrupted (allowed)");
                    return Ok(());
                }
                return Err(Violation::new(prop, "unexpected-err", format!("parse_event[{:#04x}]", e.code), crate::report::short(&err.to_string(), 200)));
            }
            Err(c) => return Err(caught(prop, &format!("parse_event[{:#04x}]", e.code), c)),
        };
        if stream.hard_error_returned {
            return Err(Violation::new(prop, "swallowed-io-error", format!("parse_event[{:#04x}]", e.code), "the stream returned a hard I/O error but parse_event reported success"));
        }
        cur.advance(m, e);
        ctx.state(cur.sig(m));
        let fa = state.frames();
        if flags.protocol {
            let exp_code = match &e.what {
                What::Gecko { last: true } => L::CODE_GECKO,
                What::SplitUnknown { last: true, code } => *code,
                _ => e.code,
            };
            if code != exp_code {
                return Err(Violation::new(prop, "field-mismatch", "parse_event.code", format!("event #{}: returned code {:#04x}, the recorder emitted {:#04x}", ei, code, exp_code)));
            }
            let exp = consumed(e.off + e.len);
            if state.bytes_read() != exp {
                return Err(Violation::new(prop, "bytes-read-mismatch", format!("parse_event[{:#04x}]", e.code), format!("event #{}: bytes_read {} but {} raw bytes consumed", ei, state.bytes_read(), exp)));
            }
            if stream.position() + base_off != e.off + e.len {
                return Err(Violation::new(prop, "bytes-read-mismatch", format!("parse_event[{:#04x}]", e.code), format!("event #{}: stream position {} but the event ends at {}", ei, stream.position() + base_off, e.off + e.len)));
            }
            if fa.rows() < prev_rows {
                return Err(Violation::new(prop, "frame-count-decreased", "frames", format!("event #{}: {} rows after {} rows", ei, fa.rows(), prev_rows)));
            }
            if fa.rows() != cur.opened {
                return Err(Violation::new(prop, "row-count", "frames.id", format!("event #{}: {} rows but {} frame occurrences opened so far", ei, fa.rows(), cur.opened)));
            }
            ctx.checks(4);
        }
        prev_rows = fa.rows();
        if flags.model_rows {
            // newly closed rows
            while verified_closed < cur.closed {
                let n = oracle::check_closed_row(m, fa, verified_closed).map_err(|f| fail_to_v(prop, f))?;
                ctx.checks(n);
                verified_closed += 1;
            }
            // the open occurrence: characters seen so far
            if cur.opened > cur.closed {
                let r = cur.opened - 1;
                if fa.id_at(r) != Some(m.occs[r].id) {
                    return Err(Violation::new(prop, "row-count", "frames.id", format!("open row {}: id {:?}, model {}", r, fa.id_at(r), m.occs[r].id)));
                }
                for (slot, p) in m.ports.iter().enumerate() {
                    for fol in [false, true] {
                        if fol && !p.ics {
                            continue;
                        }
                        let pre_seen = cur.pre_seen.contains(&(slot, fol));
                        let post_seen = cur.post_seen.contains(&(slot, fol));
                        if pre_seen {
                            let n = oracle::check_char(m, fa, r, slot, fol, false, true, post_seen).map_err(|f| fail_to_v(prop, f))?;
                            ctx.checks(n);
                        }
                    }
                }
            }
            // an earlier row must never change
            if recheck_every > 0 && step % recheck_every == 0 {
                for r in 0..verified_closed {
                    oracle::check_closed_row(m, fa, r).map_err(|f| {
                        let mut v = fail_to_v(prop, f);
                        v.kind = "prefix-changed".into();
                        v
                    })?;
                }
                ctx.probe("full re-check of all completed rows mid-stream");
            }
        } else {
            while verified_closed < cur.closed {
                verified_closed += 1;
            }
        }
        if flags.row_view {
            // rows completed by this event
            let upto = cur.closed;
            for r in rv_done..upto {
                let fr = guarded(|| state.frame(r));
                match fr {
                    Ok(fr) => {
                        let n = check_row_view(state.frames(), r, &fr, m.v).map_err(|f| fail_to_v(prop, f))?;
                        ctx.checks(n);
                    }
                    Err(c) => return Err(caught(prop, "ParseState::frame", c)),
                }
            }
            rv_done = upto;
        }
        if let What::Gecko { last: true } = &e.what {
            if flags.protocol || flags.model_rows {
                let g = state.gecko_codes();
                let (mb, ma) = m.gecko.as_ref().unwrap();
                match g {
                    Some(g) if g.bytes == *mb && g.actual_size == *ma => {}
                    Some(g) => {
                        return Err(Violation::new(prop, "field-mismatch", "gecko_codes", format!("{} bytes / actual_size {} but the recorder emitted {} / {}", g.bytes.len(), g.actual_size, mb.len(), ma)))
                    }
                    None => return Err(Violation::new(prop, "field-mismatch", "gecko_codes", "missing after the final splitter block")),
                }
                ctx.check();
            }
        }
    }
    if dropped {
        // the consumed-byte count must still describe the events that completed
        if flags.protocol {
            let done_end = m.events.iter().skip(1).take_while(|e| e.off + e.len <= m.raw_end && consumed(e.off + e.len) <= state.bytes_read()).last().map(|e| consumed(e.off + e.len));
            if done_end != Some(state.bytes_read()) {
                return Err(Violation::new(prop, "bytes-read-mismatch", "after-failed-call", format!("bytes_read {} is not at an event boundary the recorder reached", state.bytes_read())));
            }
            if state.frames().rows() < prev_rows {
                return Err(Violation::new(prop, "frame-count-decreased", "after-failed-call", "row count decreased after a failed call"));
            }
        }
        // invariants on what was completed before the connection dropped
        if flags.model_rows {
            let fa = state.frames();
            for r in 0..verified_closed {
                oracle::check_closed_row(m, fa, r).map_err(|f| {
                    let mut v = fail_to_v(prop, f);
                    v.kind = "prefix-changed".into();
                    v
                })?;
            }
        }
        ctx.rep.nontrivial = true;
        return Ok(());
    }
    // final re-check of every completed row
    if flags.model_rows {
        let fa = state.frames();
        for r in 0..verified_closed {
            oracle::check_closed_row(m, fa, r).map_err(|f| {
                let mut v = fail_to_v(prop, f);
                v.kind = "prefix-changed".into();
                v
            })?;
        }
        if cur.opened == cur.closed {
            oracle::check_column_lens(fa).map_err(|f| fail_to_v(prop, f))?;
        }
    }
    // junk after Game End inside the raw element is not an event: skip it like the one-shot reader does
    let junk = m.raw_end.saturating_sub(stream.position() + base_off);
    if junk > 0 {
        let mut buf = vec![0u8; junk];
        let _ = std::io::Read::read_exact(&mut *stream, &mut buf);
    }
    // metadata
    let mut b = [0u8; 1];
    let rb = guarded(|| std::io::Read::read_exact(&mut *stream, &mut b));
    match rb {
        Ok(Ok(())) => {}
        Ok(Err(_)) => {
            if dropping.is_some() || stream.interrupted_returned || stream.hard_error_returned {
                return Ok(());
            }
            return Err(Violation::new(prop, "unexpected-err", "tail", "could not read the byte after the raw element"));
        }
        Err(c) => return Err(caught(prop, "tail", c)),
    }
    if b[0] == 0x55 {
        let r = guarded(|| de::parse_metadata(&mut *stream, &mut state, None));
        match r {
            Ok(Ok(())) => {}
            Ok(Err(e)) => {
                if dropping.is_some() || stream.hard_error_returned || (stream.interrupted_returned && is_interrupted(&e)) {
                    return Ok(());
                }
                return Err(Violation::new(prop, "unexpected-err", "parse_metadata", crate::report::short(&e.to_string(), 200)));
            }
            Err(c) => return Err(caught(prop, "parse_metadata", c)),
        }
        if !m.has_fend() {
            // the raw element is over, so the last frame of a pre-3.0 game is complete even without a Game End
            cur.closed = cur.opened;
            ctx.probe_if(m.end.is_none() && !m.occs.is_empty(), "pre-3.0 game without Game End: metadata closes the last frame");
            // its row view must work as well
            if flags.row_view && cur.closed > 0 {
                let r = cur.closed - 1;
                let fr = guarded(|| state.frame(r)).map_err(|c| caught(prop, "ParseState::frame", c))?;
                let n = check_row_view(state.frames(), r, &fr, m.v).map_err(|f| fail_to_v(prop, f))?;
                ctx.checks(n);
            }
        }
    }
    ctx.check();

    if flags.final_equiv {
        let ro = read_slp_noopts(&m.bytes, &StreamSpec::default(), &[]);
        let game = expect_ok(prop, "slippi::read (one-shot twin)", ro.res)?;
        if state.start().bytes.0 != game.start.bytes.0 || json_of(state.start()) != json_of(&game.start) {
            return Err(Violation::new(prop, "field-mismatch", "start", "incremental Game Start differs from the one-shot read"));
        }
        if json_of(state.end()) != json_of(&game.end) || state.end().as_ref().map(|e| &e.bytes.0) != game.end.as_ref().map(|e| &e.bytes.0) {
            return Err(Violation::new(prop, "field-mismatch", "end", "incremental Game End differs from the one-shot read"));
        }
        if json_of(state.metadata()) != json_of(&game.metadata) {
            return Err(Violation::new(prop, "field-mismatch", "metadata", "incremental metadata differs from the one-shot read"));
        }
        let ga = state.gecko_codes().as_ref().map(|g| (&g.bytes, g.actual_size));
        let gb = game.gecko_codes.as_ref().map(|g| (&g.bytes, g.actual_size));
        if ga != gb {
            return Err(Violation::new(prop, "field-mismatch", "gecko_codes", "incremental Gecko codes differ from the one-shot read"));
        }
        if state.len() != game.frames.len() {
            return Err(Violation::new(prop, "row-count", "frames", format!("incremental {} rows, one-shot {}", state.len(), game.frames.len())));
        }
        let n = cmp_incremental_vs_oneshot(state.frames(), &game.frames, cur.closed).map_err(|(s, msg)| Violation::new(prop, "field-mismatch", format!("incremental-vs-oneshot {}", s), msg))?;
        ctx.checks(n + 5);
    }
    ctx.rep.nontrivial = !m.occs.is_empty() && (resumed || stream.stats.short_reads + stream.stats.eintr + stream.stats.recorder_steps > 0);
    if let Some(s2) = second.as_ref() {
        ctx.io(&s2.stats);
        ctx.digest_u64(s2.digest);
    }
    Ok(())
}

fn is_interrupted(e: &peppi::io::Error) -> bool {
    matches!(e, peppi::io::Error::Io(io) if io.kind() == std::io::ErrorKind::Interrupted)
}


//! Harness-side tokenisers (independent of peppi): .slp event walker and tar walker/writer.

#[derive(Debug, Clone)]
pub struct Tok {
    pub raw_len_declared: usize,
    pub table: Vec<(u8, u16)>,
    /// (code, offset of command byte, length incl. command byte)
    pub events: Vec<(u8, usize, usize)>,
    /// offset at which walking the payload table stopped (first byte that is not a declared code, or EOF)
    pub walked_end: usize,
}

pub fn tokenise(b: &[u8]) -> Result<Tok, String> {
    const SIG: [u8; 11] = [0x7b, 0x55, 0x03, 0x72, 0x61, 0x77, 0x5b, 0x24, 0x55, 0x23, 0x6c];
    if b.len() < 17 || b[..11] != SIG {
        return Err("bad signature".into());
    }
    let raw_len = u32::from_be_bytes([b[11], b[12], b[13], b[14]]) as usize;
    let mut pos = 15;
    if b[pos] != 0x35 {
        return Err(format!("expected payloads event, got {:#x}", b[pos]));
    }
    let size = b[pos + 1] as usize;
    if size % 3 != 1 {
        return Err(format!("payload table size {}", size));
    }
    if pos + 1 + size > b.len() {
        return Err("payload table truncated".into());
    }
    let mut table = vec![];
    let mut sizes = [0usize; 256];
    let mut known = [false; 256];
    let mut q = pos + 2;
    while q < pos + 1 + size {
        let code = b[q];
        let s = u16::from_be_bytes([b[q + 1], b[q + 2]]);
        table.push((code, s));
        sizes[code as usize] = s as usize;
        known[code as usize] = true;
        q += 3;
    }
    let mut events = vec![(0x35u8, pos, 1 + size)];
    pos += 1 + size;
    loop {
        if pos >= b.len() {
            break;
        }
        let code = b[pos];
        if !known[code as usize] {
            break;
        }
        let len = 1 + sizes[code as usize];
        if pos + len > b.len() {
            return Err(format!("event {:#x} at {} truncated", code, pos));
        }
        events.push((code, pos, len));
        pos += len;
    }
    Ok(Tok { raw_len_declared: raw_len, table, events, walked_end: pos })
}

#[derive(Debug, Clone)]
pub struct TarEntry {
    pub name: String,
    pub header_off: usize,
    pub data_off: usize,
    pub size: usize,
    pub typeflag: u8,
}

fn parse_octal(f: &[u8]) -> Result<usize, String> {
    // GNU base-256 for large values
    if !f.is_empty() && f[0] & 0x80 != 0 {
        let mut v: usize = 0;
        for (i, &b) in f.iter().enumerate() {
            let b = if i == 0 { b & 0x7f } else { b };
            v = v.checked_mul(256).ok_or("size overflow")? + b as usize;
        }
        return Ok(v);
    }
    let mut v: usize = 0;
    let mut seen = false;
    for &c in f {
        match c {
            b'0'..=b'7' => {
                v = v.saturating_mul(8).saturating_add((c - b'0') as usize);
                seen = true;
            }
            b' ' | 0 => {
                if seen {
                    break;
                }
            }
            _ => return Err(format!("bad octal byte {:#x}", c)),
        }
    }
    Ok(v)
}

/// Walk a tar archive. Returns entries (long-name records resolved) and the
/// offset just past the last data block, plus whether the two-zero-block
/// terminator was found.
pub fn tar_entries(b: &[u8]) -> Result<(Vec<TarEntry>, usize, bool), String> {
    let mut pos = 0;
    let mut out = vec![];
    let mut pending_name: Option<String> = None;
    loop {
        if pos + 512 > b.len() {
            return Ok((out, pos, false));
        }
        let h = &b[pos..pos + 512];
        if h.iter().all(|&x| x == 0) {
            let term = pos + 1024 <= b.len() && b[pos + 512..pos + 1024].iter().all(|&x| x == 0);
            return Ok((out, pos, term));
        }
        // checksum
        let stored = parse_octal(&h[148..156])?;
        let mut sum: usize = 0;
        for (i, &x) in h.iter().enumerate() {
            sum += if (148..156).contains(&i) { 32 } else { x as usize };
        }
        if sum != stored {
            return Err(format!("header checksum mismatch at {}", pos));
        }
        let size = parse_octal(&h[124..136])?;
        let typeflag = h[156];
        let name_end = h[..100].iter().position(|&x| x == 0).unwrap_or(100);
        let mut name = String::from_utf8_lossy(&h[..name_end]).to_string();
        let data_off = pos + 512;
        if data_off + size > b.len() {
            return Err(format!("entry {} data truncated", name));
        }
        let padded = (size + 511) / 512 * 512;
        if typeflag == b'L' {
            let d = &b[data_off..data_off + size];
            let e = d.iter().position(|&x| x == 0).unwrap_or(d.len());
            pending_name = Some(String::from_utf8_lossy(&d[..e]).to_string());
        } else {
            if let Some(n) = pending_name.take() {
                name = n;
            }
            out.push(TarEntry { name, header_off: pos, data_off, size, typeflag });
        }
        pos = data_off + padded;
    }
}

fn octal_field(dst: &mut [u8], v: usize) {
    let s = format!("{:0width$o}\0", v, width = dst.len() - 1);
    dst.copy_from_slice(s.as_bytes());
}

fn raw_header(name: &[u8], size: usize, typeflag: u8) -> [u8; 512] {
    let mut h = [0u8; 512];
    h[..name.len().min(100)].copy_from_slice(&name[..name.len().min(100)]);
    octal_field(&mut h[100..108], 0o644);
    octal_field(&mut h[108..116], 0);
    octal_field(&mut h[116..124], 0);
    octal_field(&mut h[124..136], size);
    octal_field(&mut h[136..148], 0);
    h[156] = typeflag;
    h[257..263].copy_from_slice(b"ustar ");
    h[263..265].copy_from_slice(b" \0");
    for x in &mut h[148..156] {
        *x = b' ';
    }
    let sum: usize = h.iter().map(|&x| x as usize).sum();
    let s = format!("{:06o}\0 ", sum);
    h[148..156].copy_from_slice(s.as_bytes());
    h
}

/// Encode one tar entry (GNU long-name record when the name exceeds 100 bytes).
/// Encode a non-regular entry (directory, link, fifo): header only, no data.
pub fn tar_special_entry_bytes(name: &str, typeflag: u8) -> Vec<u8> {
    let mut out = vec![];
    let nbv = name_bytes(name);
    let nb = &nbv[..];
    if nb.len() > 100 {
        let mut d = nb.to_vec();
        d.push(0);
        out.extend_from_slice(&raw_header(b"././@LongLink", d.len(), b'L'));
        out.extend_from_slice(&d);
        out.resize((out.len() + 511) / 512 * 512, 0);
    }
    let mut h = raw_header(nb, 0, typeflag);
    if typeflag == b'2' || typeflag == b'1' {
        // link target
        h[157..157 + 9].copy_from_slice(b"start.raw");
        for x in &mut h[148..156] {
            *x = b' ';
        }
        let sum: usize = h.iter().map(|&x| x as usize).sum();
        let s = format!("{:06o}\0 ", sum);
        h[148..156].copy_from_slice(s.as_bytes());
    }
    out.extend_from_slice(&h);
    out
}

/// Entry names are bytes, not text: a spec name starting with "raw:" stands for the bytes given by the code
/// points (each <= 0xFF) of the rest, so that names which are not UTF-8 can be written down in a JSON spec.
pub fn name_bytes(name: &str) -> Vec<u8> {
    match name.strip_prefix("raw:") {
        Some(rest) => rest.chars().map(|c| c as u32 as u8).collect(),
        None => name.as_bytes().to_vec(),
    }
}

pub fn tar_entry_bytes(name: &str, data: &[u8]) -> Vec<u8> {
    let mut out = vec![];
    let nbv = name_bytes(name);
    let nb = &nbv[..];
    if nb.len() > 100 {
        let mut d = nb.to_vec();
        d.push(0);
        out.extend_from_slice(&raw_header(b"././@LongLink", d.len(), b'L'));
        out.extend_from_slice(&d);
        out.resize((out.len() + 511) / 512 * 512, 0);
    }
    out.extend_from_slice(&raw_header(nb, data.len(), b'0'));
    out.extend_from_slice(data);
    out.resize((out.len() + 511) / 512 * 512, 0);
    out
}

#![recursion_limit = "256"]
#![allow(dead_code)]
//! simctl — deterministic simulation with fault injection for hohav/peppi.
//! See /verif/DESIGN.md.

mod access;
mod alloc;
mod archive;
mod driver;
mod gen;
mod known;
mod layout;
mod minimise;
mod mutate;
mod oracle;
mod pipeline;
mod prng;
mod props;
mod recorder;
mod report;
mod s2;
mod selfcheck;
mod simio;
mod spec;
mod tok;
mod worker;

#[derive(Clone, Copy, Debug, PartialEq, Eq)]
pub enum Tier {
    Quick,
    Thorough,
}

impl Tier {
    pub fn parse(s: &str) -> Option<Tier> {
        match s {
            "quick" => Some(Tier::Quick),
            "thorough" => Some(Tier::Thorough),
            _ => None,
        }
    }
    pub fn name(self) -> &'static str {
        match self {
            Tier::Quick => "quick",
            Tier::Thorough => "thorough",
        }
    }
}

#[global_allocator]
static GLOBAL: alloc::CappedAlloc = alloc::CappedAlloc;

pub fn run_seed(master: u64, prop: &str, index: u64) -> u64 {
    prng::mix(prng::mix_str(prng::mix(0x5EED, master), prop), index)
}

fn usage() -> ! {
    eprintln!(
        "usage:\n  simctl check <PROP> <quick|thorough>\n  simctl replay <file>\n  simctl run <PROP> <tier> <index>\n  simctl gen <PROP> <tier> <index>\n  simctl selfcheck\n  simctl worker"
    );
    std::process::exit(2)
}

fn main() {
    let args: Vec<String> = std::env::args().collect();
    if args.len() < 2 {
        usage();
    }
    match args[1].as_str() {
        "worker" => worker::main(),
        "selfcheck" => match selfcheck::run() {
            Ok(n) => {
                println!("selfcheck ok ({} checks)", n);
            }
            Err(e) => {
                eprintln!("HARNESS-ERROR selfcheck: {}", e);
                std::process::exit(2);
            }
        },
        "check" => {
            if args.len() < 4 {
                usage();
            }
            let tier = Tier::parse(&args[3]).unwrap_or_else(|| usage());
            std::process::exit(driver::check(&args[2], tier));
        }
        "replay" => {
            if args.len() < 3 {
                usage();
            }
            std::process::exit(driver::replay(&args[2]));
        }
        "run" | "gen" => {
            if args.len() < 5 {
                usage();
            }
            let tier = Tier::parse(&args[3]).unwrap_or_else(|| usage());
            let index: u64 = args[4].parse().unwrap_or_else(|_| usage());
            let master = driver::master_seed();
            let seed = run_seed(master, &args[2], index);
            let spec = props::gen(&args[2], seed, tier);
            if args[1] == "gen" {
                println!("{}", serde_json::to_string_pretty(&spec).unwrap());
            } else {
                report::install_panic_hook();
                alloc::set_active(true);
                let rep = props::run(&spec);
                alloc::set_active(false);
                println!("{}", serde_json::to_string_pretty(&rep).unwrap());
            }
        }
        _ => usage(),
    }
}

//! Hand-written accessors for peppi's columnar frame data (mutable and
//! immutable) and for the transposed single-frame view. Deliberately does NOT
//! go through `into_struct_array` or any generated name table: each field is
//! reached through its Rust path and paired, by position, with the independent
//! layout table in `layout.rs`.

use crate::layout::Kind;
use peppi::frame::{immutable as im, mutable as mu, transpose as tr};

#[derive(Clone, Copy, Debug, PartialEq, Eq, Hash)]
pub enum Cell {
    /// the column does not exist (version-gated Option is None)
    NoColumn,
    /// the column exists but has no entry at this index
    Short,
    Val(u64),
}

pub trait Bits: Copy {
    fn bits(self) -> u64;
}
impl Bits for u8 {
    fn bits(self) -> u64 {
        self as u64
    }
}
impl Bits for i8 {
    fn bits(self) -> u64 {
        self as u8 as u64
    }
}
impl Bits for u16 {
    fn bits(self) -> u64 {
        self as u64
    }
}
impl Bits for u32 {
    fn bits(self) -> u64 {
        self as u64
    }
}
impl Bits for i32 {
    fn bits(self) -> u64 {
        self as u32 as u64
    }
}
impl Bits for f32 {
    fn bits(self) -> u64 {
        self.to_bits() as u64
    }
}

macro_rules! cell {
    ($col:expr, $i:expr) => {
        match $col.values().get($i) {
            Some(x) => Cell::Val(Bits::bits(*x)),
            None => Cell::Short,
        }
    };
}
macro_rules! ocell {
    ($col:expr, $i:expr) => {
        match $col.as_ref() {
            None => Cell::NoColumn,
            Some(c) => cell!(c, $i),
        }
    };
}
macro_rules! clen {
    ($v:expr, $name:expr, $col:expr) => {
        $v.push(($name.to_string(), $col.values().len()))
    };
}
macro_rules! oclen {
    ($v:expr, $name:expr, $col:expr) => {
        if let Some(c) = $col.as_ref() {
            $v.push(($name.to_string(), c.values().len()))
        }
    };
}

macro_rules! pre_cells {
    ($p:expr, $i:expr) => {
        vec![
            cell!($p.random_seed, $i),
            cell!($p.state, $i),
            cell!($p.position.x, $i),
            cell!($p.position.y, $i),
            cell!($p.direction, $i),
            cell!($p.joystick.x, $i),
            cell!($p.joystick.y, $i),
            cell!($p.cstick.x, $i),
            cell!($p.cstick.y, $i),
            cell!($p.triggers, $i),
            cell!($p.buttons, $i),
            cell!($p.buttons_physical, $i),
            cell!($p.triggers_physical.l, $i),
            cell!($p.triggers_physical.r, $i),
            ocell!($p.raw_analog_x, $i),
            ocell!($p.percent, $i),
            ocell!($p.raw_analog_y, $i),
        ]
    };
}
macro_rules! pre_lens {
    ($v:expr, $pfx:expr, $p:expr) => {{
        clen!($v, format!("{}.random_seed", $pfx), $p.random_seed);
        clen!($v, format!("{}.state", $pfx), $p.state);
        clen!($v, format!("{}.position.x", $pfx), $p.position.x);
        clen!($v, format!("{}.position.y", $pfx), $p.position.y);
        clen!($v, format!("{}.direction", $pfx), $p.direction);
        clen!($v, format!("{}.joystick.x", $pfx), $p.joystick.x);
        clen!($v, format!("{}.joystick.y", $pfx), $p.joystick.y);
        clen!($v, format!("{}.cstick.x", $pfx), $p.cstick.x);
        clen!($v, format!("{}.cstick.y", $pfx), $p.cstick.y);
        clen!($v, format!("{}.triggers", $pfx), $p.triggers);
        clen!($v, format!("{}.buttons", $pfx), $p.buttons);
        clen!($v, format!("{}.buttons_physical", $pfx), $p.buttons_physical);
        clen!($v, format!("{}.triggers_physical.l", $pfx), $p.triggers_physical.l);
        clen!($v, format!("{}.triggers_physical.r", $pfx), $p.triggers_physical.r);
        oclen!($v, format!("{}.raw_analog_x", $pfx), $p.raw_analog_x);
        oclen!($v, format!("{}.percent", $pfx), $p.percent);
        oclen!($v, format!("{}.raw_analog_y", $pfx), $p.raw_analog_y);
    }};
}

macro_rules! post_cells {
    ($p:expr, $i:expr) => {{
        let mut v = vec![
            cell!($p.character, $i),
            cell!($p.state, $i),
            cell!($p.position.x, $i),
            cell!($p.position.y, $i),
            cell!($p.direction, $i),
            cell!($p.percent, $i),
            cell!($p.shield, $i),
            cell!($p.last_attack_landed, $i),
            cell!($p.combo_count, $i),
            cell!($p.last_hit_by, $i),
            cell!($p.stocks, $i),
            ocell!($p.state_age, $i),
        ];
        match $p.state_flags.as_ref() {
            None => v.extend([Cell::NoColumn; 5]),
            Some(sf) => v.extend([
                cell!(sf.0, $i),
                cell!(sf.1, $i),
                cell!(sf.2, $i),
                cell!(sf.3, $i),
                cell!(sf.4, $i),
            ]),
        }
        v.push(ocell!($p.misc_as, $i));
        v.push(ocell!($p.airborne, $i));
        v.push(ocell!($p.ground, $i));
        v.push(ocell!($p.jumps, $i));
        v.push(ocell!($p.l_cancel, $i));
        v.push(ocell!($p.hurtbox_state, $i));
        match $p.velocities.as_ref() {
            None => v.extend([Cell::NoColumn; 5]),
            Some(vel) => v.extend([
                cell!(vel.self_x_air, $i),
                cell!(vel.self_y, $i),
                cell!(vel.knockback_x, $i),
                cell!(vel.knockback_y, $i),
                cell!(vel.self_x_ground, $i),
            ]),
        }
        v.push(ocell!($p.hitlag, $i));
        v.push(ocell!($p.animation_index, $i));
        v.push(ocell!($p.last_hit_by_instance, $i));
        v.push(ocell!($p.instance_id, $i));
        v
    }};
}
macro_rules! post_lens {
    ($v:expr, $pfx:expr, $p:expr) => {{
        clen!($v, format!("{}.character", $pfx), $p.character);
        clen!($v, format!("{}.state", $pfx), $p.state);
        clen!($v, format!("{}.position.x", $pfx), $p.position.x);
        clen!($v, format!("{}.position.y", $pfx), $p.position.y);
        clen!($v, format!("{}.direction", $pfx), $p.direction);
        clen!($v, format!("{}.percent", $pfx), $p.percent);
        clen!($v, format!("{}.shield", $pfx), $p.shield);
        clen!($v, format!("{}.last_attack_landed", $pfx), $p.last_attack_landed);
        clen!($v, format!("{}.combo_count", $pfx), $p.combo_count);
        clen!($v, format!("{}.last_hit_by", $pfx), $p.last_hit_by);
        clen!($v, format!("{}.stocks", $pfx), $p.stocks);
        oclen!($v, format!("{}.state_age", $pfx), $p.state_age);
        if let Some(sf) = $p.state_flags.as_ref() {
            clen!($v, format!("{}.state_flags.0", $pfx), sf.0);
            clen!($v, format!("{}.state_flags.1", $pfx), sf.1);
            clen!($v, format!("{}.state_flags.2", $pfx), sf.2);
            clen!($v, format!("{}.state_flags.3", $pfx), sf.3);
            clen!($v, format!("{}.state_flags.4", $pfx), sf.4);
        }
        oclen!($v, format!("{}.misc_as", $pfx), $p.misc_as);
        oclen!($v, format!("{}.airborne", $pfx), $p.airborne);
        oclen!($v, format!("{}.ground", $pfx), $p.ground);
        oclen!($v, format!("{}.jumps", $pfx), $p.jumps);
        oclen!($v, format!("{}.l_cancel", $pfx), $p.l_cancel);
        oclen!($v, format!("{}.hurtbox_state", $pfx), $p.hurtbox_state);
        if let Some(vel) = $p.velocities.as_ref() {
            clen!($v, format!("{}.velocities.self_x_air", $pfx), vel.self_x_air);
            clen!($v, format!("{}.velocities.self_y", $pfx), vel.self_y);
            clen!($v, format!("{}.velocities.knockback_x", $pfx), vel.knockback_x);
            clen!($v, format!("{}.velocities.knockback_y", $pfx), vel.knockback_y);
            clen!($v, format!("{}.velocities.self_x_ground", $pfx), vel.self_x_ground);
        }
        oclen!($v, format!("{}.hitlag", $pfx), $p.hitlag);
        oclen!($v, format!("{}.animation_index", $pfx), $p.animation_index);
        oclen!($v, format!("{}.last_hit_by_instance", $pfx), $p.last_hit_by_instance);
        oclen!($v, format!("{}.instance_id", $pfx), $p.instance_id);
    }};
}

macro_rules! fstart_cells {
    ($p:expr, $i:expr) => {
        vec![cell!($p.random_seed, $i), ocell!($p.scene_frame_counter, $i)]
    };
}
macro_rules! fend_cells {
    ($p:expr, $i:expr) => {
        vec![ocell!($p.latest_finalized_frame, $i)]
    };
}
macro_rules! item_cells {
    ($p:expr, $i:expr) => {{
        let mut v = vec![
            cell!($p.r#type, $i),
            cell!($p.state, $i),
            cell!($p.direction, $i),
            cell!($p.velocity.x, $i),
            cell!($p.velocity.y, $i),
            cell!($p.position.x, $i),
            cell!($p.position.y, $i),
            cell!($p.damage, $i),
            cell!($p.timer, $i),
            cell!($p.id, $i),
        ];
        match $p.misc.as_ref() {
            None => v.extend([Cell::NoColumn; 4]),
            Some(m) => v.extend([cell!(m.0, $i), cell!(m.1, $i), cell!(m.2, $i), cell!(m.3, $i)]),
        }
        v.push(ocell!($p.owner, $i));
        v.push(ocell!($p.instance_id, $i));
        v
    }};
}
macro_rules! item_lens {
    ($v:expr, $p:expr) => {{
        clen!($v, "item.type", $p.r#type);
        clen!($v, "item.state", $p.state);
        clen!($v, "item.direction", $p.direction);
        clen!($v, "item.velocity.x", $p.velocity.x);
        clen!($v, "item.velocity.y", $p.velocity.y);
        clen!($v, "item.position.x", $p.position.x);
        clen!($v, "item.position.y", $p.position.y);
        clen!($v, "item.damage", $p.damage);
        clen!($v, "item.timer", $p.timer);
        clen!($v, "item.id", $p.id);
        if let Some(m) = $p.misc.as_ref() {
            clen!($v, "item.misc.0", m.0);
            clen!($v, "item.misc.1", m.1);
            clen!($v, "item.misc.2", m.2);
            clen!($v, "item.misc.3", m.3);
        }
        oclen!($v, "item.owner", $p.owner);
        oclen!($v, "item.instance_id", $p.instance_id);
    }};
}

/// Uniform read-only view over mutable and immutable frame columns.
pub trait FrameAccess {
    fn rows(&self) -> usize;
    fn id_at(&self, i: usize) -> Option<i32>;
    fn nports(&self) -> usize;
    /// (port number 0..3, has follower columns)
    fn port(&self, slot: usize) -> (u8, bool);
    /// None if there is no such character column group
    fn char_len(&self, slot: usize, follower: bool) -> Option<usize>;
    /// validity bit of the character at row i; None if the row does not exist in that column group
    fn char_present(&self, slot: usize, follower: bool, i: usize) -> Option<bool>;
    fn pre(&self, slot: usize, follower: bool, i: usize) -> Vec<Cell>;
    fn post(&self, slot: usize, follower: bool, i: usize) -> Vec<Cell>;
    fn has_fstart(&self) -> bool;
    fn has_fend(&self) -> bool;
    fn has_items(&self) -> bool;
    fn fstart(&self, i: usize) -> Vec<Cell>;
    fn fend(&self, i: usize) -> Vec<Cell>;
    fn fend_len(&self) -> usize;
    fn item_offsets(&self) -> Option<Vec<i32>>;
    fn item_count(&self) -> usize;
    fn item(&self, k: usize) -> Vec<Cell>;
    /// (column name, length) for every per-row column (not the flat item columns)
    fn row_column_lens(&self) -> Vec<(String, usize)>;
    /// (column name, length) for the flat item columns
    fn item_column_lens(&self) -> Vec<(String, usize)>;
}

fn mu_data<'a>(f: &'a mu::Frame, slot: usize, follower: bool) -> Option<&'a mu::Data> {
    let p = f.ports.get(slot)?;
    if follower {
        p.follower.as_ref()
    } else {
        Some(&p.leader)
    }
}
fn im_data<'a>(f: &'a im::Frame, slot: usize, follower: bool) -> Option<&'a im::Data> {
    let p = f.ports.get(slot)?;
    if follower {
        p.follower.as_ref()
    } else {
        Some(&p.leader)
    }
}

impl FrameAccess for mu::Frame {
    fn rows(&self) -> usize {
        self.id.values().len()
    }
    fn id_at(&self, i: usize) -> Option<i32> {
        self.id.values().get(i).copied()
    }
    fn nports(&self) -> usize {
        self.ports.len()
    }
    fn port(&self, slot: usize) -> (u8, bool) {
        (self.ports[slot].port as u8, self.ports[slot].follower.is_some())
    }
    fn char_len(&self, slot: usize, follower: bool) -> Option<usize> {
        mu_data(self, slot, follower).map(|d| d.pre.random_seed.values().len())
    }
    fn char_present(&self, slot: usize, follower: bool, i: usize) -> Option<bool> {
        let d = mu_data(self, slot, follower)?;
        if i >= d.pre.random_seed.values().len() {
            return None;
        }
        Some(match d.validity.as_ref() {
            None => true,
            Some(v) => {
                if i < v.len() {
                    v.get(i)
                } else {
                    // validity bitmap shorter than the column: treat as absent entry
                    return None;
                }
            }
        })
    }
    fn pre(&self, slot: usize, follower: bool, i: usize) -> Vec<Cell> {
        let d = mu_data(self, slot, follower).unwrap();
        pre_cells!(d.pre, i)
    }
    fn post(&self, slot: usize, follower: bool, i: usize) -> Vec<Cell> {
        let d = mu_data(self, slot, follower).unwrap();
        post_cells!(d.post, i)
    }
    fn has_fstart(&self) -> bool {
        self.start.is_some()
    }
    fn has_fend(&self) -> bool {
        self.end.is_some()
    }
    fn has_items(&self) -> bool {
        self.item.is_some()
    }
    fn fstart(&self, i: usize) -> Vec<Cell> {
        let s = self.start.as_ref().unwrap();
        fstart_cells!(s, i)
    }
    fn fend(&self, i: usize) -> Vec<Cell> {
        let s = self.end.as_ref().unwrap();
        fend_cells!(s, i)
    }
    fn fend_len(&self) -> usize {
        self.end.as_ref().map_or(0, |e| e.len())
    }
    fn item_offsets(&self) -> Option<Vec<i32>> {
        self.item_offset.as_ref().map(|o| o.as_slice().to_vec())
    }
    fn item_count(&self) -> usize {
        self.item.as_ref().map_or(0, |it| it.r#type.values().len())
    }
    fn item(&self, k: usize) -> Vec<Cell> {
        let it = self.item.as_ref().unwrap();
        item_cells!(it, k)
    }
    fn row_column_lens(&self) -> Vec<(String, usize)> {
        let mut v: Vec<(String, usize)> = vec![];
        for (slot, p) in self.ports.iter().enumerate() {
            pre_lens!(v, format!("ports[{}].leader.pre", slot), p.leader.pre);
            post_lens!(v, format!("ports[{}].leader.post", slot), p.leader.post);
            if let Some(b) = p.leader.validity.as_ref() {
                v.push((format!("ports[{}].leader.validity", slot), b.len()));
            }
            if let Some(fo) = p.follower.as_ref() {
                pre_lens!(v, format!("ports[{}].follower.pre", slot), fo.pre);
                post_lens!(v, format!("ports[{}].follower.post", slot), fo.post);
                if let Some(b) = fo.validity.as_ref() {
                    v.push((format!("ports[{}].follower.validity", slot), b.len()));
                }
            }
        }
        if let Some(s) = self.start.as_ref() {
            clen!(v, "start.random_seed", s.random_seed);
            oclen!(v, "start.scene_frame_counter", s.scene_frame_counter);
        }
        if let Some(e) = self.end.as_ref() {
            oclen!(v, "end.latest_finalized_frame", e.latest_finalized_frame);
            v.push(("end(len)".to_string(), e.len()));
        }
        if let Some(o) = self.item_offset.as_ref() {
            v.push(("item_offset(len-1)".to_string(), o.as_slice().len().saturating_sub(1)));
        }
        v
    }
    fn item_column_lens(&self) -> Vec<(String, usize)> {
        let mut v: Vec<(String, usize)> = vec![];
        if let Some(it) = self.item.as_ref() {
            item_lens!(v, it);
        }
        v
    }
}

impl FrameAccess for im::Frame {
    fn rows(&self) -> usize {
        self.id.values().len()
    }
    fn id_at(&self, i: usize) -> Option<i32> {
        self.id.values().get(i).copied()
    }
    fn nports(&self) -> usize {
        self.ports.len()
    }
    fn port(&self, slot: usize) -> (u8, bool) {
        (self.ports[slot].port as u8, self.ports[slot].follower.is_some())
    }
    fn char_len(&self, slot: usize, follower: bool) -> Option<usize> {
        im_data(self, slot, follower).map(|d| d.pre.random_seed.values().len())
    }
    fn char_present(&self, slot: usize, follower: bool, i: usize) -> Option<bool> {
        let d = im_data(self, slot, follower)?;
        if i >= d.pre.random_seed.values().len() {
            return None;
        }
        Some(match d.validity.as_ref() {
            None => true,
            Some(v) => {
                if i < v.len() {
                    v.get_bit(i)
                } else {
                    return None;
                }
            }
        })
    }
    fn pre(&self, slot: usize, follower: bool, i: usize) -> Vec<Cell> {
        let d = im_data(self, slot, follower).unwrap();
        pre_cells!(d.pre, i)
    }
    fn post(&self, slot: usize, follower: bool, i: usize) -> Vec<Cell> {
        let d = im_data(self, slot, follower).unwrap();
        post_cells!(d.post, i)
    }
    fn has_fstart(&self) -> bool {
        self.start.is_some()
    }
    fn has_fend(&self) -> bool {
        self.end.is_some()
    }
    fn has_items(&self) -> bool {
        self.item.is_some()
    }
    fn fstart(&self, i: usize) -> Vec<Cell> {
        let s = self.start.as_ref().unwrap();
        fstart_cells!(s, i)
    }
    fn fend(&self, i: usize) -> Vec<Cell> {
        let s = self.end.as_ref().unwrap();
        fend_cells!(s, i)
    }
    fn fend_len(&self) -> usize {
        self.end.as_ref().map_or(0, |e| match (&e.latest_finalized_frame, &e.validity) {
            (Some(c), _) => c.values().len(),
            (None, Some(v)) => v.len(),
            (None, None) => 0,
        })
    }
    fn item_offsets(&self) -> Option<Vec<i32>> {
        self.item_offset.as_ref().map(|o| o.as_slice().to_vec())
    }
    fn item_count(&self) -> usize {
        self.item.as_ref().map_or(0, |it| it.r#type.values().len())
    }
    fn item(&self, k: usize) -> Vec<Cell> {
        let it = self.item.as_ref().unwrap();
        item_cells!(it, k)
    }
    fn row_column_lens(&self) -> Vec<(String, usize)> {
        let mut v: Vec<(String, usize)> = vec![];
        for (slot, p) in self.ports.iter().enumerate() {
            pre_lens!(v, format!("ports[{}].leader.pre", slot), p.leader.pre);
            post_lens!(v, format!("ports[{}].leader.post", slot), p.leader.post);
            if let Some(b) = p.leader.validity.as_ref() {
                v.push((format!("ports[{}].leader.validity", slot), b.len()));
            }
            if let Some(fo) = p.follower.as_ref() {
                pre_lens!(v, format!("ports[{}].follower.pre", slot), fo.pre);
                post_lens!(v, format!("ports[{}].follower.post", slot), fo.post);
                if let Some(b) = fo.validity.as_ref() {
                    v.push((format!("ports[{}].follower.validity", slot), b.len()));
                }
            }
        }
        if let Some(s) = self.start.as_ref() {
            clen!(v, "start.random_seed", s.random_seed);
            oclen!(v, "start.scene_frame_counter", s.scene_frame_counter);
        }
        if let Some(e) = self.end.as_ref() {
            oclen!(v, "end.latest_finalized_frame", e.latest_finalized_frame);
            if let Some(b) = e.validity.as_ref() {
                v.push(("end.validity".to_string(), b.len()));
            }
        }
        if let Some(o) = self.item_offset.as_ref() {
            v.push(("item_offset(len-1)".to_string(), o.as_slice().len().saturating_sub(1)));
        }
        v
    }
    fn item_column_lens(&self) -> Vec<(String, usize)> {
        let mut v: Vec<(String, usize)> = vec![];
        if let Some(it) = self.item.as_ref() {
            item_lens!(v, it);
        }
        v
    }
}

// ---- transposed (row) view ----

fn oc<T: Bits>(x: Option<T>) -> Cell {
    match x {
        None => Cell::NoColumn,
        Some(v) => Cell::Val(v.bits()),
    }
}
fn vc<T: Bits>(x: T) -> Cell {
    Cell::Val(x.bits())
}

pub fn tr_pre(p: &tr::Pre) -> Vec<Cell> {
    vec![
        vc(p.random_seed),
        vc(p.state),
        vc(p.position.x),
        vc(p.position.y),
        vc(p.direction),
        vc(p.joystick.x),
        vc(p.joystick.y),
        vc(p.cstick.x),
        vc(p.cstick.y),
        vc(p.triggers),
        vc(p.buttons),
        vc(p.buttons_physical),
        vc(p.triggers_physical.l),
        vc(p.triggers_physical.r),
        oc(p.raw_analog_x),
        oc(p.percent),
        oc(p.raw_analog_y),
    ]
}

pub fn tr_post(p: &tr::Post) -> Vec<Cell> {
    let mut v = vec![
        vc(p.character),
        vc(p.state),
        vc(p.position.x),
        vc(p.position.y),
        vc(p.direction),
        vc(p.percent),
        vc(p.shield),
        vc(p.last_attack_landed),
        vc(p.combo_count),
        vc(p.last_hit_by),
        vc(p.stocks),
        oc(p.state_age),
    ];
    match p.state_flags {
        None => v.extend([Cell::NoColumn; 5]),
        Some(sf) => v.extend([vc(sf.0), vc(sf.1), vc(sf.2), vc(sf.3), vc(sf.4)]),
    }
    v.push(oc(p.misc_as));
    v.push(oc(p.airborne));
    v.push(oc(p.ground));
    v.push(oc(p.jumps));
    v.push(oc(p.l_cancel));
    v.push(oc(p.hurtbox_state));
    match p.velocities {
        None => v.extend([Cell::NoColumn; 5]),
        Some(vel) => v.extend([
            vc(vel.self_x_air),
            vc(vel.self_y),
            vc(vel.knockback_x),
            vc(vel.knockback_y),
            vc(vel.self_x_ground),
        ]),
    }
    v.push(oc(p.hitlag));
    v.push(oc(p.animation_index));
    v.push(oc(p.last_hit_by_instance));
    v.push(oc(p.instance_id));
    v
}

pub fn tr_fstart(p: &tr::Start) -> Vec<Cell> {
    vec![vc(p.random_seed), oc(p.scene_frame_counter)]
}
pub fn tr_fend(p: &tr::End) -> Vec<Cell> {
    vec![oc(p.latest_finalized_frame)]
}
pub fn tr_item(p: &tr::Item) -> Vec<Cell> {
    let mut v = vec![
        vc(p.r#type),
        vc(p.state),
        vc(p.direction),
        vc(p.velocity.x),
        vc(p.velocity.y),
        vc(p.position.x),
        vc(p.position.y),
        vc(p.damage),
        vc(p.timer),
        vc(p.id),
    ];
    match p.misc {
        None => v.extend([Cell::NoColumn; 4]),
        Some(m) => v.extend([vc(m.0), vc(m.1), vc(m.2), vc(m.3)]),
    }
    v.push(oc(p.owner));
    v.push(oc(p.instance_id));
    v
}

/// Expected cells for an event, straight from the recorder's bytes and the
/// independent layout table: Val(bits at spec offset) iff version >= since.
pub fn expected_cells(kind: Kind, v: (u8, u8), ev: &[u8]) -> Vec<Cell> {
    crate::layout::fields(kind)
        .iter()
        .map(|f| {
            if crate::layout::gte(v, f.since) {
                Cell::Val(crate::layout::read_bits(ev, f))
            } else {
                Cell::NoColumn
            }
        })
        .collect()
}

pub fn field_name(kind: Kind, idx: usize) -> &'static str {
    crate::layout::fields(kind)[idx].name
}

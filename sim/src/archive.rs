//! Harness-side view of a .slpp archive (walks the 512-byte blocks itself).

use crate::spec::{Node, Tree};
use crate::tok::{tar_entries, TarEntry};
use serde_json::{Map, Value};

pub struct Archive<'a> {
    pub bytes: &'a [u8],
    pub entries: Vec<TarEntry>,
    pub end: usize,
    pub terminated: bool,
}

impl<'a> Archive<'a> {
    pub fn open(bytes: &'a [u8]) -> Result<Archive<'a>, String> {
        let (entries, end, terminated) = tar_entries(bytes)?;
        Ok(Archive { bytes, entries, end, terminated })
    }
    pub fn names(&self) -> Vec<String> {
        self.entries.iter().map(|e| e.name.clone()).collect()
    }
    pub fn get(&self, name: &str) -> Option<&'a [u8]> {
        self.entries.iter().find(|e| e.name == name).map(|e| &self.bytes[e.data_off..e.data_off + e.size])
    }
}

pub fn tree_to_json(t: &Tree) -> Value {
    let mut m = Map::new();
    for (k, v) in t {
        m.insert(
            k.clone(),
            match v {
                Node::Str(s) => Value::String(s.clone()),
                Node::Int(i) => Value::Number((*i).into()),
                Node::Map(t2) => tree_to_json(t2),
            },
        );
    }
    Value::Object(m)
}

/// Order-sensitive rendering used for comparisons (serde_json with preserve_order keeps insertion order).
pub fn tree_json_string(t: &Option<Tree>) -> String {
    match t {
        None => "null".to_string(),
        Some(t) => tree_to_json(t).to_string(),
    }
}

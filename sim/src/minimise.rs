//! Spec minimisation: shrink the scenario (never the seed) while the same
//! (property, kind, site) violation persists.

use crate::report::Violation;
use crate::spec::*;
use std::time::{Duration, Instant};

pub struct Budget {
    pub max_candidates: u32,
    pub deadline: Instant,
    pub tried: u32,
    pub accepted: u32,
}

impl Budget {
    pub fn new(max_candidates: u32, secs: u64) -> Self {
        Budget { max_candidates, deadline: Instant::now() + Duration::from_secs(secs), tried: 0, accepted: 0 }
    }
    fn left(&self) -> bool {
        self.tried < self.max_candidates && Instant::now() < self.deadline
    }
}

fn same(a: &Violation, b: &Violation) -> bool {
    a.property == b.property && a.kind == b.kind && a.site == b.site
}

fn drop_port(spec: &mut ScenarioSpec, slot: usize) {
    let r = &mut spec.recorder;
    if slot >= r.ports.len() {
        return;
    }
    r.ports.remove(slot);
    for f in &mut r.frames {
        let p = f.present as u16;
        let low = p & ((1u16 << (2 * slot)) - 1);
        let high = (p >> (2 * slot + 2)) << (2 * slot);
        f.present = (low | high) as u8;
    }
}

fn full_mask(r: &RecorderSpec) -> u8 {
    let mut mask = 0u8;
    for (slot, p) in r.ports.iter().enumerate() {
        mask |= 1 << (2 * slot);
        if p.ics {
            mask |= 1 << (2 * slot + 1);
        }
    }
    mask
}

pub fn minimise(
    spec: &ScenarioSpec,
    target: &Violation,
    run: &mut dyn FnMut(&ScenarioSpec) -> Option<Violation>,
    budget: &mut Budget,
) -> ScenarioSpec {
    let mut cur = spec.clone();
    let mut try_it = |cand: ScenarioSpec, cur: &mut ScenarioSpec, budget: &mut Budget| -> bool {
        if !budget.left() || cand == *cur {
            return false;
        }
        budget.tried += 1;
        match run(&cand) {
            Some(v) if same(&v, target) => {
                *cur = cand;
                budget.accepted += 1;
                true
            }
            _ => false,
        }
    };

    let mut progress = true;
    let mut rounds = 0;
    while progress && budget.left() && rounds < 6 {
        progress = false;
        rounds += 1;

        // 1. faults and schedules
        for i in (0..cur.disk_faults.len()).rev() {
            let mut c = cur.clone();
            c.disk_faults.remove(i);
            progress |= try_it(c, &mut cur, budget);
        }
        for i in (0..cur.transport_faults.len()).rev() {
            let mut c = cur.clone();
            c.transport_faults.remove(i);
            progress |= try_it(c, &mut cur, budget);
        }
        for i in (0..cur.archive_edits.len()).rev() {
            let mut c = cur.clone();
            c.archive_edits.remove(i);
            progress |= try_it(c, &mut cur, budget);
        }
        {
            let mut c = cur.clone();
            c.stream = StreamSpec::default();
            progress |= try_it(c, &mut cur, budget);
            let mut c = cur.clone();
            c.stream.eintr_calls.clear();
            progress |= try_it(c, &mut cur, budget);
            let mut c = cur.clone();
            c.stream.mode = Frag::Whole;
            progress |= try_it(c, &mut cur, budget);
            let mut c = cur.clone();
            c.stream.hard_error_call = None;
            progress |= try_it(c, &mut cur, budget);
            let mut c = cur.clone();
            c.stream.hard_error_offset = None;
            progress |= try_it(c, &mut cur, budget);
            let mut c = cur.clone();
            c.stream2 = StreamSpec::default();
            progress |= try_it(c, &mut cur, budget);
            let mut c = cur.clone();
            c.sink = SinkSpec::default();
            progress |= try_it(c, &mut cur, budget);
            if cur.live.is_some() {
                let mut c = cur.clone();
                if let Some(l) = c.live.as_mut() {
                    l.chunking = Chunking::Event;
                    l.drop_at = None;
                }
                progress |= try_it(c, &mut cur, budget);
            }
            let mut c = cur.clone();
            c.opts.compute_hash = false;
            progress |= try_it(c, &mut cur, budget);
            let mut c = cur.clone();
            c.opts.skip_frames = false;
            progress |= try_it(c, &mut cur, budget);
            let mut c = cur.clone();
            c.compression = Compression::None;
            progress |= try_it(c, &mut cur, budget);
            let mut c = cur.clone();
            c.archive_version = None;
            progress |= try_it(c, &mut cur, budget);
        }

        // 2. frames: delete chunks, then singles
        let mut chunk = (cur.recorder.frames.len() / 2).max(1);
        while chunk >= 1 && budget.left() && !cur.recorder.frames.is_empty() {
            let mut i = 0;
            let mut any = false;
            while i < cur.recorder.frames.len() && budget.left() {
                let mut c = cur.clone();
                let end = (i + chunk).min(c.recorder.frames.len());
                c.recorder.frames.drain(i..end);
                if try_it(c, &mut cur, budget) {
                    any = true;
                } else {
                    i += chunk;
                }
            }
            progress |= any;
            if chunk == 1 {
                break;
            }
            chunk = (chunk / 2).max(1);
        }

        // 3. recorder structure
        {
            let mut c = cur.clone();
            c.recorder.gecko = None;
            progress |= try_it(c, &mut cur, budget);
            if let Some(g) = cur.recorder.gecko.clone() {
                if g.len > 1 {
                    let mut c = cur.clone();
                    c.recorder.gecko = Some(GeckoSpec { len: 1, pseed: g.pseed });
                    progress |= try_it(c, &mut cur, budget);
                }
            }
            let mut c = cur.clone();
            c.recorder.metadata = None;
            progress |= try_it(c, &mut cur, budget);
            let mut c = cur.clone();
            c.recorder.metadata = Some(vec![]);
            progress |= try_it(c, &mut cur, budget);
            if let Some(t) = cur.recorder.metadata.clone() {
                for i in (0..t.len()).rev() {
                    let mut c = cur.clone();
                    if let Some(tt) = c.recorder.metadata.as_mut() {
                        tt.remove(i);
                    }
                    progress |= try_it(c, &mut cur, budget);
                }
            }
            let mut c = cur.clone();
            c.recorder.end = EndKind::Single;
            progress |= try_it(c, &mut cur, budget);
            let mut c = cur.clone();
            c.recorder.extras = Extras::default();
            progress |= try_it(c, &mut cur, budget);
            for i in (0..cur.recorder.extras.unknown.len()).rev() {
                let mut c = cur.clone();
                c.recorder.extras.unknown.remove(i);
                progress |= try_it(c, &mut cur, budget);
            }
            for i in 0..cur.recorder.extras.unknown.len() {
                if cur.recorder.extras.unknown[i].split {
                    let mut c = cur.clone();
                    c.recorder.extras.unknown[i].split = false;
                    progress |= try_it(c, &mut cur, budget);
                }
                if cur.recorder.extras.unknown[i].after.len() > 1 {
                    let mut c = cur.clone();
                    c.recorder.extras.unknown[i].after.truncate(1);
                    progress |= try_it(c, &mut cur, budget);
                }
            }
            let mut c = cur.clone();
            c.recorder.extras.trailing.clear();
            progress |= try_it(c, &mut cur, budget);
            let mut c = cur.clone();
            c.recorder.extras.phantom.clear();
            progress |= try_it(c, &mut cur, budget);
            if cur.recorder.cut_last_frame > 1 {
                let mut c = cur.clone();
                c.recorder.cut_last_frame = 1;
                progress |= try_it(c, &mut cur, budget);
            }
            if cur.recorder.idle {
                let mut c = cur.clone();
                c.recorder.idle = false;
                progress |= try_it(c, &mut cur, budget);
            }
            let mut c = cur.clone();
            c.recorder.irregular = Irregular::default();
            progress |= try_it(c, &mut cur, budget);
            let mut c = cur.clone();
            c.recorder.special_rate = 0;
            progress |= try_it(c, &mut cur, budget);
            let mut c = cur.clone();
            c.recorder.sticky = 0;
            progress |= try_it(c, &mut cur, budget);
            let mut c = cur.clone();
            c.recorder.blank = 0;
            progress |= try_it(c, &mut cur, budget);
            let mut c = cur.clone();
            c.recorder.raw_len_zero = false;
            progress |= try_it(c, &mut cur, budget);
            let mut c = cur.clone();
            c.stream.prefix = 0;
            c.stream.suffix = 0;
            progress |= try_it(c, &mut cur, budget);
            let mut c = cur.clone();
            c.recorder.teams = false;
            progress |= try_it(c, &mut cur, budget);
            let mut c = cur.clone();
            c.recorder.empty_types = [3; 4];
            progress |= try_it(c, &mut cur, budget);
            // items
            let mut c = cur.clone();
            for f in &mut c.recorder.frames {
                f.items = 0;
            }
            progress |= try_it(c, &mut cur, budget);
            // presence gaps
            let mask = full_mask(&cur.recorder);
            let mut c = cur.clone();
            for f in &mut c.recorder.frames {
                f.present = mask;
            }
            progress |= try_it(c, &mut cur, budget);
            if cur.recorder.frames.len() <= 24 {
                for i in 0..cur.recorder.frames.len() {
                    if cur.recorder.frames[i].present != mask {
                        let mut c = cur.clone();
                        c.recorder.frames[i].present = mask;
                        progress |= try_it(c, &mut cur, budget);
                    }
                    if cur.recorder.frames[i].items > 0 {
                        let mut c = cur.clone();
                        c.recorder.frames[i].items = 0;
                        progress |= try_it(c, &mut cur, budget);
                    }
                }
            }
            // contiguous ids
            let mut c = cur.clone();
            for (k, f) in c.recorder.frames.iter_mut().enumerate() {
                f.id = -123 + k as i32;
            }
            progress |= try_it(c, &mut cur, budget);
            // ports
            for slot in (0..cur.recorder.ports.len()).rev() {
                if cur.recorder.ports.len() > 1 {
                    let mut c = cur.clone();
                    drop_port(&mut c, slot);
                    progress |= try_it(c, &mut cur, budget);
                }
            }
            for slot in 0..cur.recorder.ports.len() {
                if cur.recorder.ports[slot].ics {
                    let mut c = cur.clone();
                    c.recorder.ports[slot].ics = false;
                    let bit = 1u8 << (2 * slot + 1);
                    for f in &mut c.recorder.frames {
                        f.present &= !bit;
                    }
                    progress |= try_it(c, &mut cur, budget);
                }
                if cur.recorder.ports[slot].ptype != 0 {
                    let mut c = cur.clone();
                    c.recorder.ports[slot].ptype = 0;
                    progress |= try_it(c, &mut cur, budget);
                }
            }
            if cur.recorder.version[2] != 0 {
                let mut c = cur.clone();
                c.recorder.version[2] = 0;
                progress |= try_it(c, &mut cur, budget);
            }
            // payload seeds -> small numbers (prefer simpler arguments)
            let mut c = cur.clone();
            for (k, f) in c.recorder.frames.iter_mut().enumerate() {
                f.pseed = k as u64;
            }
            c.recorder.start_pseed = 1;
            c.recorder.end_pseed = 1;
            progress |= try_it(c, &mut cur, budget);
        }
        // configuration of the embedding application: none, if the violation does not need it
        if cur.debug_dump {
            let mut c = cur.clone();
            c.debug_dump = false;
            progress |= try_it(c, &mut cur, budget);
        }
        if cur.log_level != 0 {
            let mut c = cur.clone();
            c.log_level = 0;
            progress |= try_it(c, &mut cur, budget);
        }
        // knobs
        for k in cur.knobs.keys().cloned().collect::<Vec<_>>() {
            let mut c = cur.clone();
            c.knobs.remove(&k);
            progress |= try_it(c, &mut cur, budget);
        }
    }
    cur
}

//! Self-checks of the harness's own tables against reality (not against
//! peppi's generated code): layout contiguity, Shift-JIS unit table, XXH3
//! known answer, and payload sizes found inside the repository's fixtures.

use crate::layout::{self as L, Kind};
use crate::tok;

pub fn repo_dir() -> String {
    std::env::var("PEPPI_REPO").unwrap_or_else(|_| "/repo".to_string())
}

pub fn run() -> Result<u64, String> {
    let mut n = 0u64;
    L::self_check()?;
    n += 1;
    // Shift-JIS units: the harness's hand-written table against the encoding_rs crate (NOT against peppi:
    // a disagreement with peppi is what C05 reports, not a harness error)
    for (bytes, ch) in crate::recorder::SJIS_UNITS {
        let s = encoding_rs::SHIFT_JIS
            .decode_without_bom_handling_and_without_replacement(bytes)
            .ok_or_else(|| format!("sjis unit {:?}: not decodable", bytes))?;
        if s != ch.to_string() {
            return Err(format!("sjis unit {:?} decodes to {:?}, table says {:?}", bytes, s, ch));
        }
        n += 1;
    }
    // XXH3-64 known answer (empty input)
    if xxhash_rust::xxh3::xxh3_64(b"") != 0x2D06800538D394C2 {
        return Err("xxh3_64(\"\") known answer mismatch".into());
    }
    n += 1;
    // fixtures: payload table sizes == layout sizes for that version
    let dir = format!("{}/tests/data", repo_dir());
    let mut names: Vec<String> = std::fs::read_dir(&dir)
        .map_err(|e| format!("{}: {}", dir, e))?
        .filter_map(|e| e.ok())
        .map(|e| e.file_name().to_string_lossy().to_string())
        .filter(|n| n.ends_with(".slp"))
        .collect();
    names.sort();
    for name in names {
        let b = std::fs::read(format!("{}/{}", dir, name)).map_err(|e| e.to_string())?;
        if b.len() < 64 {
            continue;
        }
        let t = match tok::tokenise(&b) {
            Ok(t) => t,
            Err(_) => continue, // corrupt.slp etc.
        };
        let Some(&(_, soff, _)) = t.events.iter().find(|e| e.0 == L::CODE_START) else { continue };
        let v = (b[soff + 1], b[soff + 2]);
        if (v.0, v.1) > (3, 16) {
            continue;
        }
        for (code, size) in &t.table {
            let exp = match *code {
                L::CODE_START => Some(L::start_size(v)),
                L::CODE_PRE => Some(L::payload_size(Kind::Pre, v)),
                L::CODE_POST => Some(L::payload_size(Kind::Post, v)),
                L::CODE_END => Some(L::end_size(v)),
                L::CODE_FSTART => Some(L::payload_size(Kind::FStart, v)),
                L::CODE_ITEM => Some(L::payload_size(Kind::Item, v)),
                L::CODE_FEND => Some(L::payload_size(Kind::FEnd, v)),
                L::CODE_SPLITTER => Some(516),
                _ => None,
            };
            if let Some(e) = exp {
                if e != *size as usize {
                    return Err(format!(
                        "fixture {} (v{}.{}): event {:#x} has payload size {}, layout table says {}",
                        name, v.0, v.1, code, size, e
                    ));
                }
                n += 1;
            }
        }
    }
    Ok(n)
}

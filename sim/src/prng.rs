//! One integer decides everything: splitmix64 seeding + xoshiro256** stream.
//! Own implementation so that no dependency can change the sequence under us.

#[inline]
pub fn splitmix64(x: &mut u64) -> u64 {
    *x = x.wrapping_add(0x9E37_79B9_7F4A_7C15);
    let mut z = *x;
    z = (z ^ (z >> 30)).wrapping_mul(0xBF58_476D_1CE4_E5B9);
    z = (z ^ (z >> 27)).wrapping_mul(0x94D0_49BB_1331_11EB);
    z ^ (z >> 31)
}

/// Order-sensitive hash combine used for seeds, digests and signatures.
#[inline]
pub fn mix(a: u64, b: u64) -> u64 {
    let mut x = a ^ b.wrapping_mul(0x9E37_79B9_7F4A_7C15).rotate_left(23);
    splitmix64(&mut x)
}

pub fn mix_bytes(mut h: u64, bytes: &[u8]) -> u64 {
    // FNV-1a style folding followed by a splitmix finaliser; only used for digests.
    for chunk in bytes.chunks(8) {
        let mut w = [0u8; 8];
        w[..chunk.len()].copy_from_slice(chunk);
        h = (h ^ u64::from_le_bytes(w)).wrapping_mul(0x0000_0100_0000_01B3);
        h = h.rotate_left(29);
    }
    mix(h, bytes.len() as u64)
}

pub fn mix_str(h: u64, s: &str) -> u64 {
    mix_bytes(h, s.as_bytes())
}

#[derive(Clone, Debug)]
pub struct Rng {
    s: [u64; 4],
}

impl Rng {
    pub fn new(seed: u64) -> Self {
        let mut x = seed;
        let s = [
            splitmix64(&mut x),
            splitmix64(&mut x),
            splitmix64(&mut x),
            splitmix64(&mut x),
        ];
        Rng { s }
    }

    #[inline]
    pub fn next_u64(&mut self) -> u64 {
        let result = self.s[1].wrapping_mul(5).rotate_left(7).wrapping_mul(9);
        let t = self.s[1] << 17;
        self.s[2] ^= self.s[0];
        self.s[3] ^= self.s[1];
        self.s[1] ^= self.s[2];
        self.s[0] ^= self.s[3];
        self.s[2] ^= t;
        self.s[3] = self.s[3].rotate_left(45);
        result
    }

    #[inline]
    pub fn next_u32(&mut self) -> u32 {
        (self.next_u64() >> 32) as u32
    }

    /// Uniform in 0..n (n > 0). Slight modulo bias is irrelevant here and keeps
    /// the draw count per call fixed at one (needed for replay stability).
    #[inline]
    pub fn below(&mut self, n: u64) -> u64 {
        debug_assert!(n > 0);
        ((self.next_u64() as u128 * n as u128) >> 64) as u64
    }

    #[inline]
    pub fn range(&mut self, lo: u64, hi_incl: u64) -> u64 {
        lo + self.below(hi_incl - lo + 1)
    }

    #[inline]
    pub fn usize_below(&mut self, n: usize) -> usize {
        self.below(n as u64) as usize
    }

    /// true with probability num/den
    #[inline]
    pub fn chance(&mut self, num: u64, den: u64) -> bool {
        self.below(den) < num
    }

    pub fn pick<'a, T>(&mut self, xs: &'a [T]) -> &'a T {
        &xs[self.usize_below(xs.len())]
    }

    pub fn fill(&mut self, buf: &mut [u8]) {
        for chunk in buf.chunks_mut(8) {
            let w = self.next_u64().to_le_bytes();
            chunk.copy_from_slice(&w[..chunk.len()]);
        }
    }

    pub fn fork(&mut self) -> Rng {
        Rng::new(self.next_u64())
    }
}

#[cfg(test)]
mod tests {
    use super::*;
    #[test]
    fn stable() {
        let mut r = Rng::new(1);
        let a = r.next_u64();
        let mut r2 = Rng::new(1);
        assert_eq!(a, r2.next_u64());
    }
}

//! Oracles comparing what peppi produced with what the recorder model knows
//! it emitted. The model never decodes: expectations come from the recorder's
//! own bytes through the independent layout table.

use crate::access::{expected_cells, Cell, FrameAccess};
use crate::layout::{self as L, Kind};
use crate::recorder::Model;

/// (kind, site, message)
pub type Fail = (String, String, String);

fn fail(kind: &str, site: impl Into<String>, msg: impl Into<String>) -> Fail {
    (kind.to_string(), site.into(), msg.into())
}

pub fn who(fol: bool) -> &'static str {
    if fol {
        "follower"
    } else {
        "leader"
    }
}

pub fn check_shape<F: FrameAccess + ?Sized>(m: &Model, fa: &F) -> Result<u64, Fail> {
    if fa.nports() != m.ports.len() {
        return Err(fail("layout", "ports", format!("{} port column groups, model has {} occupied ports", fa.nports(), m.ports.len())));
    }
    for (slot, p) in m.ports.iter().enumerate() {
        let (pn, fol) = fa.port(slot);
        if pn != p.port {
            return Err(fail("layout", format!("ports[{}].port", slot), format!("port {} but model slot is port {}", pn, p.port)));
        }
        if fol != p.ics {
            return Err(fail("layout", format!("ports[{}].follower", slot), format!("follower columns {} but ICs={}", fol, p.ics)));
        }
    }
    if fa.has_fstart() != m.has_fstart() {
        return Err(fail("layout", "start", format!("start columns {} but version {:?}", fa.has_fstart(), m.v)));
    }
    if fa.has_fend() != m.has_fend() || fa.has_items() != m.has_fend() {
        return Err(fail("layout", "end/item", format!("end {} item {} but version {:?}", fa.has_fend(), fa.has_items(), m.v)));
    }
    Ok(3)
}

fn first_diff(a: &[Cell], b: &[Cell]) -> usize {
    a.iter().zip(b.iter()).position(|(x, y)| x != y).unwrap_or(0)
}

fn misaligned(m: &Model, slot: usize, fol: bool, r: usize, pre: bool, actual: &[Cell]) -> Option<usize> {
    let lo = r.saturating_sub(8);
    let hi = (r + 8).min(m.occs.len());
    for r2 in lo..hi {
        if r2 == r {
            continue;
        }
        if let Some(cd) = m.occs[r2].chars.get(&(slot, fol)) {
            let exp = if pre { expected_cells(Kind::Pre, m.v, &cd.pre) } else { expected_cells(Kind::Post, m.v, &cd.post) };
            if exp == actual {
                return Some(r2);
            }
        }
    }
    None
}

/// Check one character of row r. `closed`: the occurrence is complete, so an
/// absent character must be marked absent (otherwise a shorter column is fine).
/// `post_seen`: in an open occurrence, whether the model has already emitted this character's post.
pub fn check_char<F: FrameAccess + ?Sized>(
    m: &Model,
    fa: &F,
    r: usize,
    slot: usize,
    fol: bool,
    closed: bool,
    pre_seen: bool,
    post_seen: bool,
) -> Result<u64, Fail> {
    let occ = &m.occs[r];
    let site = |what: &str| format!("port={}/{}/{}", m.ports[slot].port, who(fol), what);
    let present = fa.char_present(slot, fol, r);
    let exp = occ.chars.get(&(slot, fol));
    let mut n = 0;
    match exp {
        None => {
            // model: no events for this character in this occurrence
            match present {
                Some(false) => {}
                None if !closed => {}
                None => {
                    return Err(fail("row-count", site("len"), format!("row {} closed but column has only {:?} entries", r, fa.char_len(slot, fol))))
                }
                Some(true) => {
                    // values present where the character had no events: whose are they?
                    let pre = fa.pre(slot, fol, r);
                    if let Some(r2) = misaligned(m, slot, fol, r, true, &pre) {
                        return Err(fail("row-misaligned", site("pre"), format!("row {} (character absent) holds the values of occurrence {}", r, r2)));
                    }
                    return Err(fail("presence-mismatch", site("validity"), format!("row {}: marked present but the character had no events in that occurrence", r)));
                }
            }
            n += 1;
        }
        Some(cd) => {
            if !pre_seen {
                return Ok(0);
            }
            match present {
                Some(true) => {}
                Some(false) => {
                    return Err(fail("presence-mismatch", site("validity"), format!("row {}: marked absent but the character had events", r)))
                }
                None => {
                    return Err(fail("row-count", site("len"), format!("row {}: character had events but its columns have {:?} entries", r, fa.char_len(slot, fol))))
                }
            }
            let e = expected_cells(Kind::Pre, m.v, &cd.pre);
            let a = fa.pre(slot, fol, r);
            if a != e {
                if let Some(r2) = misaligned(m, slot, fol, r, true, &a) {
                    return Err(fail("row-misaligned", site("pre"), format!("row {} holds the pre-frame values of occurrence {}", r, r2)));
                }
                let k = first_diff(&a, &e);
                return Err(fail("field-mismatch", site(&format!("pre.{}", L::PRE[k].name)), format!("row {}: got {:?}, model {:?}", r, a[k], e[k])));
            }
            n += e.len() as u64;
            if post_seen {
                let e = expected_cells(Kind::Post, m.v, &cd.post);
                let a = fa.post(slot, fol, r);
                if a != e {
                    if let Some(r2) = misaligned(m, slot, fol, r, false, &a) {
                        return Err(fail("row-misaligned", site("post"), format!("row {} holds the post-frame values of occurrence {}", r, r2)));
                    }
                    let k = first_diff(&a, &e);
                    return Err(fail("field-mismatch", site(&format!("post.{}", L::POST[k].name)), format!("row {}: got {:?}, model {:?}", r, a[k], e[k])));
                }
                n += e.len() as u64;
            }
        }
    }
    Ok(n)
}

/// Check a fully closed row against the model.
pub fn check_closed_row<F: FrameAccess + ?Sized>(m: &Model, fa: &F, r: usize) -> Result<u64, Fail> {
    let occ = &m.occs[r];
    let mut n = 0;
    match fa.id_at(r) {
        Some(id) if id == occ.id => {}
        other => return Err(fail("row-count", "frames.id", format!("row {}: id {:?}, model occurrence id {}", r, other, occ.id))),
    }
    for (slot, p) in m.ports.iter().enumerate() {
        n += check_char(m, fa, r, slot, false, true, true, true)?;
        if p.ics {
            n += check_char(m, fa, r, slot, true, true, true, true)?;
        }
    }
    if let Some(fs) = &occ.fstart {
        let e = expected_cells(Kind::FStart, m.v, fs);
        let a = fa.fstart(r);
        if a != e {
            let k = first_diff(&a, &e);
            return Err(fail("field-mismatch", format!("start.{}", L::FSTART[k].name), format!("row {}: got {:?}, model {:?}", r, a[k], e[k])));
        }
        n += e.len() as u64;
    }
    if let Some(fe) = &occ.fend {
        let e = expected_cells(Kind::FEnd, m.v, fe);
        let a = fa.fend(r);
        // before 3.7 the End record has no fields: nothing to compare but the entry must exist
        if a != e {
            let k = first_diff(&a, &e);
            return Err(fail("field-mismatch", format!("end.{}", L::FEND[k].name), format!("row {}: got {:?}, model {:?}", r, a[k], e[k])));
        }
        n += 1;
        // items
        let offs = fa.item_offsets().ok_or_else(|| fail("layout", "item_offset", "missing"))?;
        if r + 1 >= offs.len() {
            return Err(fail("items-mismatch", "item_offset", format!("row {} closed but item_offset has {} entries", r, offs.len())));
        }
        let (s, e2) = (offs[r], offs[r + 1]);
        if s < 0 || e2 < s || (e2 - s) as usize != occ.items.len() {
            return Err(fail("items-mismatch", "item_offset", format!("row {}: offsets {}..{} but the occurrence had {} items", r, s, e2, occ.items.len())));
        }
        for (k, it) in occ.items.iter().enumerate() {
            let idx = s as usize + k;
            if idx >= fa.item_count() {
                return Err(fail("items-mismatch", "item", format!("row {}: item index {} beyond item columns ({})", r, idx, fa.item_count())));
            }
            let e = expected_cells(Kind::Item, m.v, it);
            let a = fa.item(idx);
            if a != e {
                let j = first_diff(&a, &e);
                return Err(fail("items-mismatch", format!("item.{}", L::ITEM[j].name), format!("row {} item {}: got {:?}, model {:?}", r, k, a[j], e[j])));
            }
            n += e.len() as u64;
        }
    }
    Ok(n)
}

/// Every per-row column has exactly `rows` entries; flat item columns agree with the last offset.
pub fn check_column_lens<F: FrameAccess + ?Sized>(fa: &F) -> Result<u64, Fail> {
    let rows = fa.rows();
    let lens = fa.row_column_lens();
    for (name, len) in &lens {
        if *len != rows {
            return Err(fail("row-count", name.clone(), format!("column has {} entries, frames has {} rows", len, rows)));
        }
    }
    let mut n = lens.len() as u64;
    if let Some(offs) = fa.item_offsets() {
        let last = *offs.last().unwrap_or(&0);
        for (name, len) in fa.item_column_lens() {
            if len as i64 != last as i64 {
                return Err(fail("items-mismatch", name, format!("item column has {} entries, last offset {}", len, last)));
            }
            n += 1;
        }
        if offs.first() != Some(&0) {
            return Err(fail("items-mismatch", "item_offset", format!("first offset {:?}", offs.first())));
        }
    }
    Ok(n)
}

/// Finished game: every occurrence is a closed row.
pub fn check_all_rows<F: FrameAccess + ?Sized>(m: &Model, fa: &F) -> Result<u64, Fail> {
    let mut n = check_shape(m, fa)?;
    if fa.rows() != m.occs.len() {
        return Err(fail("row-count", "frames.id", format!("{} rows, model has {} frame occurrences", fa.rows(), m.occs.len())));
    }
    n += check_column_lens(fa)?;
    for r in 0..m.occs.len() {
        n += check_closed_row(m, fa, r)?;
    }
    Ok(n)
}

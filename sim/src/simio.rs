//! Simulated disk / pipe endpoints: SimStream (Read + Seek), SimSink (Write).
//! Every decision (fragmentation, Interrupted, hard error, live interleaving)
//! comes from the spec and a PRNG seeded from it. Logging never draws.

use crate::prng::{mix, Rng};
use crate::spec::*;
use std::collections::BTreeSet;
use std::io::{self, Read, Seek, SeekFrom, Write};

/// Global progress counter: bumped on every simulated I/O call and oracle step. The worker's
/// heartbeat thread reports liveness to the supervisor only while this counter moves, so a long
/// but progressing run is not mistaken for a hang, and a loop that never touches the simulated
/// world still trips the wall-clock watchdog.
pub static PROGRESS: std::sync::atomic::AtomicU64 = std::sync::atomic::AtomicU64::new(0);

#[inline]
pub fn progress() {
    PROGRESS.fetch_add(1, std::sync::atomic::Ordering::Relaxed);
}

/// Payload of the unwind used to stop a run that makes no progress.
#[derive(Debug)]
pub struct NoProgress(pub String);

pub const EOF_POLL_LIMIT: u32 = 6;

#[derive(Clone, Debug, Default)]
pub struct IoStats {
    pub reads: u64,
    pub short_reads: u64,
    pub eintr: u64,
    pub hard_errors: u64,
    pub seeks: u64,
    pub seek_errors: u64,
    pub eof_polls: u64,
    pub writes: u64,
    pub short_writes: u64,
    pub write_eintr: u64,
    pub enospc: u64,
    pub scribbles: u64,
    pub full_zero: u64,
    pub flush_errors: u64,
    pub recorder_steps: u64,
    pub drops: u64,
    pub split_inside_event: u64,
    pub split_on_edge: u64,
}

impl IoStats {
    pub fn add(&mut self, o: &IoStats) {
        self.reads += o.reads;
        self.short_reads += o.short_reads;
        self.eintr += o.eintr;
        self.hard_errors += o.hard_errors;
        self.seeks += o.seeks;
        self.seek_errors += o.seek_errors;
        self.eof_polls += o.eof_polls;
        self.writes += o.writes;
        self.short_writes += o.short_writes;
        self.write_eintr += o.write_eintr;
        self.enospc += o.enospc;
        self.flush_errors += o.flush_errors;
        self.recorder_steps += o.recorder_steps;
        self.drops += o.drops;
        self.split_inside_event += o.split_inside_event;
        self.split_on_edge += o.split_on_edge;
    }
}

pub struct Live {
    /// absolute offsets at which successive recorder writes end (ascending, last = data.len())
    pub chunks: Vec<usize>,
    pub next: usize,
    pub drop_at: Option<usize>,
    pub rng: Rng,
}

pub struct SimStream<'a> {
    data: &'a [u8],
    /// unrelated bytes before / after the replay (the stream's address space is prefix ++ data ++ suffix)
    prefix: Vec<u8>,
    suffix: Vec<u8>,
    /// bytes of `data` the recorder has produced so far (live) or data.len()
    avail: usize,
    /// position in the stream's address space (starts at prefix.len())
    pos: usize,
    spec: StreamSpec,
    rng: Rng,
    /// sorted event edges (absolute offsets); may be empty
    edges: &'a [usize],
    calls: u32,
    consecutive_eof: u32,
    call_budget: u64,
    total_calls: u64,
    pub digest: u64,
    pub oplog: Vec<String>,
    pub stats: IoStats,
    pub live: Option<Live>,
    pub interleavings: BTreeSet<u64>,
    /// a hard (non-Interrupted) error was returned to the caller at least once
    pub hard_error_returned: bool,
    pub interrupted_returned: bool,
    /// highest position reached
    pub high_water: usize,
}

fn hard_kind(k: u8) -> io::ErrorKind {
    match k {
        1 => io::ErrorKind::BrokenPipe,
        2 => io::ErrorKind::UnexpectedEof,
        3 => io::ErrorKind::ConnectionReset,
        4 => io::ErrorKind::TimedOut,
        5 => io::ErrorKind::WouldBlock,
        _ => io::ErrorKind::Other,
    }
}

impl<'a> SimStream<'a> {
    pub fn new(data: &'a [u8], spec: &StreamSpec, edges: &'a [usize]) -> Self {
        let mut g = Rng::new(spec.pseed ^ 0xE4BED);
        let mut prefix = vec![0u8; spec.prefix as usize];
        g.fill(&mut prefix);
        let mut suffix = vec![0u8; spec.suffix as usize];
        g.fill(&mut suffix);
        SimStream {
            data,
            pos: prefix.len(),
            prefix,
            suffix,
            avail: data.len(),
            spec: spec.clone(),
            rng: Rng::new(spec.pseed ^ 0x5157_5245_414D),
            edges,
            calls: 0,
            consecutive_eof: 0,
            call_budget: 4 * (data.len() as u64 + spec.suffix as u64) + 4096 + 2 * spec.eintr_calls.len() as u64,
            total_calls: 0,
            digest: 0x51D,
            oplog: vec![],
            stats: IoStats::default(),
            live: None,
            interleavings: BTreeSet::new(),
            hard_error_returned: false,
            interrupted_returned: false,
            high_water: 0,
        }
    }

    pub fn new_live(data: &'a [u8], spec: &StreamSpec, edges: &'a [usize], live: &LiveSpec, chunks: Vec<usize>) -> Self {
        let mut s = Self::new(data, spec, edges);
        s.avail = 0;
        s.live = Some(Live {
            chunks,
            next: 0,
            drop_at: live.drop_at.map(|d| d as usize),
            rng: Rng::new(live.pseed ^ 0x4C49_5645),
        });
        s
    }

    /// position relative to the first byte of the replay
    pub fn position(&self) -> usize {
        self.pos.saturating_sub(self.prefix.len())
    }

    fn base(&self) -> usize {
        self.prefix.len()
    }

    /// end of what can currently be read, in the stream's address space
    fn virt_avail(&self) -> usize {
        let b = self.base() + self.avail;
        if self.avail >= self.data.len() {
            b + self.suffix.len()
        } else {
            b
        }
    }

    pub fn calls(&self) -> u64 {
        self.total_calls
    }

    fn log(&mut self, op: u8, asked: usize, res: i64) {
        self.digest = mix(self.digest, op as u64);
        self.digest = mix(self.digest, asked as u64);
        self.digest = mix(self.digest, res as u64);
        self.digest = mix(self.digest, self.pos as u64);
        if self.oplog.len() < 256 {
            let _ = self.base();
            let name = match op {
                0 => "read",
                1 => "seek",
                _ => "?",
            };
            self.oplog.push(format!("{} asked={} -> {} @{}", name, asked, res, self.pos));
        }
    }

    fn bump(&mut self) {
        progress();
        self.total_calls += 1;
        if self.total_calls > self.call_budget {
            std::panic::resume_unwind(Box::new(NoProgress(format!(
                "stream call budget exceeded: {} calls on {} bytes (pos {})",
                self.total_calls,
                self.data.len(),
                self.pos
            ))));
        }
    }

    /// live mode: let the recorder run until at least one new byte is available
    fn recorder_step(&mut self) -> bool {
        let Some(live) = self.live.as_mut() else { return false };
        let cap = live.drop_at.unwrap_or(usize::MAX);
        if self.avail >= cap.min(self.data.len()) {
            return false;
        }
        if live.next >= live.chunks.len() {
            return false;
        }
        // the recorder may run ahead by several writes before the parser is scheduled again
        let ahead = 1 + if live.rng.chance(1, 4) { live.rng.usize_below(4) } else { 0 };
        let mut stepped = false;
        for _ in 0..ahead {
            if live.next >= live.chunks.len() {
                break;
            }
            let to = live.chunks[live.next].min(cap);
            live.next += 1;
            self.stats.recorder_steps += 1;
            if to > self.avail {
                self.avail = to;
                stepped = true;
            }
            if to >= cap {
                break;
            }
        }
        // interleaving measure: where the parser was waiting (event kind, byte offset inside
        // the event) when the recorder ran, and how many writes the recorder got in before
        // the parser was scheduled again
        let lp = self.position();
        let (code, within) = match self.edges.binary_search(&lp) {
            Ok(i) => (self.data.get(self.edges[i]).copied().unwrap_or(0), 0usize),
            Err(0) => (0, lp),
            Err(i) => (self.data.get(self.edges[i - 1]).copied().unwrap_or(0), lp - self.edges[i - 1]),
        };
        let key = mix(mix(mix(0x11FE, code as u64), (within as u64).min(1024)), ahead as u64);
        self.interleavings.insert(key);
        stepped
    }

    fn note_split(&mut self) {
        // called after a read that ended before the end of available data
        if self.edges.is_empty() {
            return;
        }
        let lp = self.position();
        match self.edges.binary_search(&lp) {
            Ok(_) => {
                self.stats.split_on_edge += 1;
                self.interleavings.insert(mix(0xED6E, 0));
            }
            Err(i) => {
                if i > 0 {
                    let start = self.edges[i - 1];
                    let code = self.data.get(start).copied().unwrap_or(0);
                    self.stats.split_inside_event += 1;
                    // (offsets far inside a huge block — Gecko data, megabyte metadata — are folded together)
                    self.interleavings.insert(mix(mix(0x1D5E, code as u64), ((lp - start) as u64).min(1024)));
                }
            }
        }
    }
}

impl<'a> Read for SimStream<'a> {
    fn read(&mut self, buf: &mut [u8]) -> io::Result<usize> {
        self.bump();
        let idx = self.calls;
        self.calls = self.calls.saturating_add(1);
        self.stats.reads += 1;
        if let Some(h) = self.spec.hard_error_call {
            if idx >= h {
                self.stats.hard_errors += 1;
                self.hard_error_returned = true;
                self.log(0, buf.len(), -2);
                return Err(io::Error::new(hard_kind(self.spec.hard_error_kind), "sim: injected hard read error"));
            }
        }
        let base = self.base();
        if let Some(o) = self.spec.hard_error_offset {
            if self.pos >= base && (self.pos - base) as u64 >= o && !buf.is_empty() {
                self.stats.hard_errors += 1;
                self.hard_error_returned = true;
                self.log(0, buf.len(), -2);
                return Err(io::Error::new(hard_kind(self.spec.hard_error_kind), "sim: injected hard read error at offset"));
            }
        }
        if self.spec.eintr_calls.contains(&idx) {
            self.stats.eintr += 1;
            self.interrupted_returned = true;
            self.log(0, buf.len(), -1);
            return Err(io::Error::new(io::ErrorKind::Interrupted, "sim: EINTR"));
        }
        if buf.is_empty() {
            self.log(0, 0, 0);
            return Ok(0);
        }
        if self.pos >= base + self.avail && self.live.is_some() {
            self.recorder_step();
        }
        let left = self.virt_avail().saturating_sub(self.pos);
        if left == 0 {
            self.consecutive_eof += 1;
            self.stats.eof_polls += 1;
            self.log(0, buf.len(), 0);
            if self.consecutive_eof > EOF_POLL_LIMIT {
                std::panic::resume_unwind(Box::new(NoProgress(format!(
                    "{} consecutive reads at end of stream (pos {})",
                    self.consecutive_eof,
                    self.position()
                ))));
            }
            return Ok(0);
        }
        self.consecutive_eof = 0;
        // which segment does the read start in? (a read may run on into the following segment,
        // as a read from a larger file would)
        let seg: u8 = if self.pos < base {
            0
        } else if self.pos < base + self.data.len() {
            1
        } else {
            2
        };
        let mut max = buf.len().min(left);
        let lp = self.pos.saturating_sub(base); // logical position inside the replay
        if let (1, Some(o)) = (seg, self.spec.hard_error_offset) {
            // deliver up to the fault position, never across it
            let room = (o as usize).saturating_sub(lp);
            if room > 0 {
                max = max.min(room);
            }
        }
        let n = match self.spec.mode {
            Frag::Whole => max,
            Frag::One => 1,
            Frag::Fixed(c) => (c.max(1) as usize).min(max),
            Frag::Two(k) => {
                let k = k as usize;
                if lp < k {
                    (k - lp).min(max)
                } else {
                    max
                }
            }
            Frag::Random(m) => {
                let cap = (m.max(1) as usize).min(max);
                1 + self.rng.usize_below(cap)
            }
            Frag::Edge(d) => {
                // stop at the next event edge shifted by d
                let i = match self.edges.binary_search(&(lp + 1)) {
                    Ok(i) => i,
                    Err(i) => i,
                };
                let mut n = max;
                for e in &self.edges[i.min(self.edges.len())..] {
                    let t = (*e as i64 + d as i64).max(0) as usize;
                    if t > lp {
                        n = (t - lp).min(max);
                        break;
                    }
                }
                n.max(1)
            }
        };
        let n = n.min(max).max(1);
        // copy n bytes out of prefix ++ data ++ suffix starting at self.pos
        let mut done = 0usize;
        while done < n {
            let p = self.pos + done;
            let (src, off): (&[u8], usize) = if p < base {
                (&self.prefix[..], p)
            } else if p < base + self.data.len() {
                (self.data, p - base)
            } else {
                (&self.suffix[..], p - base - self.data.len())
            };
            let take = (n - done).min(src.len() - off);
            buf[done..done + take].copy_from_slice(&src[off..off + take]);
            done += take;
        }
        self.pos += n;
        if self.position() > self.high_water {
            self.high_water = self.position();
        }
        if n < buf.len() {
            if self.spec.scribble {
                for b in buf[n..].iter_mut().take(4096) {
                    *b = 0xA5;
                }
                self.stats.scribbles += 1;
            }
            self.stats.short_reads += 1;
            if seg == 1 && self.position() < self.data.len() {
                self.note_split();
            }
        }
        self.log(0, buf.len(), n as i64);
        Ok(n)
    }
}

impl<'a> Seek for SimStream<'a> {
    fn seek(&mut self, pos: SeekFrom) -> io::Result<u64> {
        self.bump();
        self.stats.seeks += 1;
        if self.spec.seek_error {
            self.stats.seek_errors += 1;
            self.hard_error_returned = true;
            self.log(1, 0, -2);
            return Err(io::Error::new(io::ErrorKind::Other, "sim: injected seek error"));
        }
        let new = match pos {
            SeekFrom::Start(o) => o as i128,
            SeekFrom::Current(d) => self.pos as i128 + d as i128,
            SeekFrom::End(d) => (self.prefix.len() + self.data.len() + self.suffix.len()) as i128 + d as i128,
        };
        if new < 0 {
            self.log(1, 0, -3);
            return Err(io::Error::new(io::ErrorKind::InvalidInput, "sim: seek before start"));
        }
        self.pos = new.min(usize::MAX as i128) as usize;
        self.consecutive_eof = 0;
        self.log(1, 0, self.pos as i64);
        Ok(self.pos as u64)
    }
}

/// A replay too large to hold in memory: `head ++ hole ++ tail`, where the hole is `count` events of
/// an undeclared-to-the-library code, each `[code][65535 zero bytes]`, generated on the fly. Lets a
/// run cross the 2^31 / near-2^32 byte marks that the 32-bit raw length allows.
pub struct SparseStream<'a> {
    head: &'a [u8],
    tail: &'a [u8],
    hole_len: u64,
    code: u8,
    pos: u64,
    /// largest number of bytes one read returns (0 = whatever was asked)
    chunk: usize,
    consecutive_eof: u32,
    pub reads: u64,
    pub seeks: u64,
    pub max_pos: u64,
}

impl<'a> SparseStream<'a> {
    pub fn new(head: &'a [u8], tail: &'a [u8], count: u64, code: u8, chunk: usize) -> Self {
        SparseStream { head, tail, hole_len: count * 65536, code, pos: 0, chunk, consecutive_eof: 0, reads: 0, seeks: 0, max_pos: 0 }
    }
    pub fn total(&self) -> u64 {
        self.head.len() as u64 + self.hole_len + self.tail.len() as u64
    }
}

impl<'a> Read for SparseStream<'a> {
    fn read(&mut self, buf: &mut [u8]) -> io::Result<usize> {
        progress();
        self.reads += 1;
        if buf.is_empty() {
            return Ok(0);
        }
        let total = self.total();
        if self.pos >= total {
            self.consecutive_eof += 1;
            if self.consecutive_eof > EOF_POLL_LIMIT {
                std::panic::resume_unwind(Box::new(NoProgress(format!("{} consecutive reads at end of a sparse stream (pos {})", self.consecutive_eof, self.pos))));
            }
            return Ok(0);
        }
        self.consecutive_eof = 0;
        let h = self.head.len() as u64;
        let mut n = buf.len();
        if self.chunk > 0 {
            n = n.min(self.chunk);
        }
        if self.pos < h {
            let off = self.pos as usize;
            n = n.min(self.head.len() - off);
            buf[..n].copy_from_slice(&self.head[off..off + n]);
        } else if self.pos < h + self.hole_len {
            let k = self.pos - h;
            n = (n as u64).min(self.hole_len - k) as usize;
            for b in buf[..n].iter_mut() {
                *b = 0;
            }
            // command bytes sit at multiples of 65536 inside the hole
            let mut next = (65536 - (k % 65536)) % 65536;
            while (next as usize) < n {
                buf[next as usize] = self.code;
                next += 65536;
            }
        } else {
            let off = (self.pos - h - self.hole_len) as usize;
            n = n.min(self.tail.len() - off);
            buf[..n].copy_from_slice(&self.tail[off..off + n]);
        }
        self.pos += n as u64;
        self.max_pos = self.max_pos.max(self.pos);
        Ok(n)
    }
}

impl<'a> Seek for SparseStream<'a> {
    fn seek(&mut self, pos: SeekFrom) -> io::Result<u64> {
        progress();
        self.seeks += 1;
        let new = match pos {
            SeekFrom::Start(o) => o as i128,
            SeekFrom::Current(d) => self.pos as i128 + d as i128,
            SeekFrom::End(d) => self.total() as i128 + d as i128,
        };
        if new < 0 || new > u64::MAX as i128 {
            return Err(io::Error::new(io::ErrorKind::InvalidInput, "sim: seek out of range"));
        }
        self.pos = new as u64;
        self.consecutive_eof = 0;
        Ok(self.pos)
    }
}

pub struct SimSink {
    pub data: Vec<u8>,
    spec: SinkSpec,
    rng: Rng,
    calls: u32,
    pub digest: u64,
    pub stats: IoStats,
    pub failed: bool,
    pub interrupted_returned: bool,
    zero_writes: u32,
}

/// a writer may look at Ok(0) a few times (retry loops); past this it is not making progress
pub const ZERO_WRITE_LIMIT: u32 = 64;

impl SimSink {
    pub fn new(spec: &SinkSpec) -> Self {
        SimSink {
            data: vec![],
            spec: spec.clone(),
            rng: Rng::new(spec.pseed ^ 0x53494E4B),
            calls: 0,
            digest: 0x51CC,
            stats: IoStats::default(),
            failed: false,
            interrupted_returned: false,
            zero_writes: 0,
        }
    }
}

impl Write for SimSink {
    fn write(&mut self, buf: &[u8]) -> io::Result<usize> {
        progress();
        let idx = self.calls;
        self.calls = self.calls.saturating_add(1);
        self.stats.writes += 1;
        if self.spec.eintr_calls.contains(&idx) {
            self.stats.write_eintr += 1;
            self.interrupted_returned = true;
            self.digest = mix(self.digest, 0xE1);
            return Err(io::Error::new(io::ErrorKind::Interrupted, "sim: EINTR"));
        }
        if buf.is_empty() {
            return Ok(0);
        }
        let mut max = buf.len();
        if let Some(b) = self.spec.enospc_after {
            let room = (b as usize).saturating_sub(self.data.len());
            if room == 0 {
                self.stats.enospc += 1;
                self.failed = true;
                self.digest = mix(self.digest, 0xE2);
                if self.spec.full_zero {
                    // a fixed-size buffer: "wrote nothing", for ever. A writer that keeps asking makes no progress.
                    self.zero_writes += 1;
                    self.stats.full_zero += 1;
                    if self.zero_writes > ZERO_WRITE_LIMIT {
                        std::panic::resume_unwind(Box::new(NoProgress(format!("writer called write() {} times in a row on a full sink that returns Ok(0)", self.zero_writes))));
                    }
                    return Ok(0);
                }
                return Err(io::Error::new(io::ErrorKind::Other, "sim: ENOSPC"));
            }
            max = max.min(room);
        }
        let n = match self.spec.mode {
            Frag::Whole | Frag::Edge(_) => max,
            Frag::One => 1,
            Frag::Fixed(c) => (c.max(1) as usize).min(max),
            Frag::Two(k) => {
                let k = k as usize;
                if self.data.len() < k {
                    (k - self.data.len()).min(max)
                } else {
                    max
                }
            }
            Frag::Random(m) => 1 + self.rng.usize_below((m.max(1) as usize).min(max)),
        };
        self.data.extend_from_slice(&buf[..n]);
        if n < buf.len() {
            self.stats.short_writes += 1;
        }
        self.digest = mix(mix(self.digest, buf.len() as u64), n as u64);
        Ok(n)
    }

    fn flush(&mut self) -> io::Result<()> {
        if self.spec.flush_error {
            self.stats.flush_errors += 1;
            self.failed = true;
            return Err(io::Error::new(io::ErrorKind::Other, "sim: flush failed"));
        }
        Ok(())
    }
}

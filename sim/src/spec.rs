//! ScenarioSpec: the explicit, serialisable description of one simulated run.
//! `gen(seed) -> spec` is the only place the PRNG is consumed for structure;
//! `run(spec) -> RunReport` is a pure function. Minimisation and replay work
//! on the spec, never on the seed.

use serde::{Deserialize, Serialize};
use std::collections::BTreeMap;

#[derive(Serialize, Deserialize, Clone, Debug, PartialEq)]
pub struct PortSpec {
    /// 0..=3
    pub port: u8,
    /// 0 human, 1 CPU, 2 demo
    pub ptype: u8,
    /// Ice Climbers (character byte 14) => has a follower
    pub ics: bool,
}

#[derive(Serialize, Deserialize, Clone, Debug, PartialEq)]
pub struct FrameSpec {
    pub id: i32,
    /// bit 2*slot = leader of slot present, bit 2*slot+1 = follower present
    pub present: u8,
    pub items: u16,
    pub pseed: u64,
}

#[derive(Serialize, Deserialize, Clone, Debug, PartialEq)]
pub struct GeckoSpec {
    pub len: u32,
    pub pseed: u64,
}

#[derive(Serialize, Deserialize, Clone, Copy, Debug, PartialEq, Eq)]
pub enum EndKind {
    None,
    Single,
    Double,
}

#[derive(Serialize, Deserialize, Clone, Debug, PartialEq)]
pub enum Node {
    Str(String),
    Int(i32),
    Map(Vec<(String, Node)>),
}

pub type Tree = Vec<(String, Node)>;

#[derive(Serialize, Deserialize, Clone, Debug, PartialEq)]
pub struct UnknownEv {
    pub code: u8,
    pub size: u16,
    /// inserted after base event number k (0 = right after Game Start); may repeat
    pub after: Vec<u32>,
    pub pseed: u64,
    /// delivered through Message Splitter blocks (as the Gecko list is); only from 3.3 on, and never
    /// in the middle of another split message
    #[serde(default)]
    pub split: bool,
}

#[derive(Serialize, Deserialize, Clone, Debug, PartialEq, Default)]
pub struct Extras {
    pub unknown: Vec<UnknownEv>,
    /// extra trailing bytes appended to every instance of a known event (by code)
    pub trailing: BTreeMap<u8, u16>,
    pub trailing_pseed: u64,
    /// payload-table entries for codes that never occur in the stream (code, size) — including
    /// known codes the version does not use
    #[serde(default)]
    pub phantom: Vec<(u8, u16)>,
}

#[derive(Serialize, Deserialize, Clone, Debug, PartialEq, Default)]
pub struct Irregular {
    pub junk_after_end: u8,
    pub junk_pseed: u64,
    /// permute each occurrence's pre/item/post events (pre before post per character)
    pub perm_pseed: Option<u64>,
}

#[derive(Serialize, Deserialize, Clone, Debug, PartialEq)]
pub struct RecorderSpec {
    pub version: [u8; 3],
    pub ports: Vec<PortSpec>,
    /// type byte for each of the 4 ports when unoccupied (must be >= 3)
    pub empty_types: [u8; 4],
    pub teams: bool,
    pub frames: Vec<FrameSpec>,
    pub start_pseed: u64,
    pub gecko: Option<GeckoSpec>,
    pub end: EndKind,
    pub end_pseed: u64,
    pub metadata: Option<Tree>,
    #[serde(default)]
    pub extras: Extras,
    #[serde(default)]
    pub irregular: Irregular,
    /// 0 = all payload bytes random; n>0 = roughly 1 field in n forced to a boundary pattern
    pub special_rate: u8,
    /// keep the Gecko list even below 3.3 (outside the recorder envelope; only used where a
    /// property quantifies over every game rather than over well-formed recordings)
    #[serde(default)]
    pub force_gecko: bool,
    /// unfinalised file: the header declares raw length 0 (the recorder never patched it)
    #[serde(default)]
    pub raw_len_zero: bool,
    /// n > 0: roughly 1 character event in n repeats the bytes of that character's previous event of the
    /// same kind (real games repeat values from frame to frame; purely random payloads never do)
    #[serde(default)]
    pub sticky: u8,
    /// n > 0: roughly 1 frame-level event in n has an all-zero or all-ones payload
    #[serde(default)]
    pub blank: u8,
    /// an idle recording (paused / nothing moves): every event repeats the bytes of the previous event of its
    /// kind (and character), only the frame number advancing
    #[serde(default)]
    pub idle: bool,
    /// the per-port extension slots (UCF toggles, name tag, netplay name / code / UID) of UNOCCUPIED ports
    /// hold arbitrary bytes (no exposed field depends on them)
    #[serde(default)]
    pub empty_garbage: bool,
    /// only without a Game End: the recording stops INSIDE its last frame — this many of that frame's last
    /// events are missing (at least the frame's first event stays); raw length consistent
    #[serde(default)]
    pub cut_last_frame: u8,
}

#[derive(Serialize, Deserialize, Clone, Debug, PartialEq)]
pub enum Frag {
    Whole,
    One,
    Fixed(u32),
    /// deliver exactly k bytes first (over as many calls as needed is NOT allowed: one short read at absolute offset k), rest whole
    Two(u32),
    Random(u32),
    /// split at event edges shifted by d in -1..=1
    Edge(i8),
}

#[derive(Serialize, Deserialize, Clone, Debug, PartialEq)]
pub struct StreamSpec {
    pub mode: Frag,
    pub pseed: u64,
    /// read-call indexes (0-based, counting every read call) that return Interrupted
    pub eintr_calls: Vec<u32>,
    /// read-call index that returns a hard error (and every later call too)
    pub hard_error_call: Option<u32>,
    /// kind of the hard error: 0 Other, 1 BrokenPipe, 2 UnexpectedEof, 3 ConnectionReset, 4 TimedOut, 5 WouldBlock
    pub hard_error_kind: u8,
    pub seek_error: bool,
    /// hard error placed at a byte position instead of a call index: bytes before this absolute
    /// offset are delivered (a read crossing it is cut short), the read that would deliver the
    /// byte at this offset fails, and so does every later call
    #[serde(default)]
    pub hard_error_offset: Option<u64>,
    /// the replay does not start at stream offset 0: this many unrelated bytes precede it and the
    /// stream is handed to peppi positioned at the replay's first byte (a member of a larger file)
    #[serde(default)]
    pub prefix: u32,
    /// unrelated bytes follow the replay's closing brace
    #[serde(default)]
    pub suffix: u32,
    /// after a short read, the part of the caller's buffer beyond the bytes delivered is overwritten
    /// with junk (a `Read` implementation may use the whole buffer as scratch space)
    #[serde(default)]
    pub scribble: bool,
}

impl Default for StreamSpec {
    fn default() -> Self {
        StreamSpec {
            mode: Frag::Whole,
            pseed: 0,
            eintr_calls: vec![],
            hard_error_call: None,
            hard_error_kind: 0,
            seek_error: false,
            hard_error_offset: None,
            prefix: 0,
            suffix: 0,
            scribble: false,
        }
    }
}

#[derive(Serialize, Deserialize, Clone, Debug, PartialEq)]
pub struct SinkSpec {
    pub mode: Frag,
    pub pseed: u64,
    pub eintr_calls: Vec<u32>,
    /// accept at most this many bytes, then fail every write
    pub enospc_after: Option<u64>,
    pub flush_error: bool,
    /// how a full sink says so: false = every further write fails with an error (a disk), true = every
    /// further write returns Ok(0) (a fixed-size buffer such as `&mut [u8]`)
    #[serde(default)]
    pub full_zero: bool,
}

impl Default for SinkSpec {
    fn default() -> Self {
        SinkSpec { mode: Frag::Whole, pseed: 0, eintr_calls: vec![], enospc_after: None, flush_error: false, full_zero: false }
    }
}

#[derive(Serialize, Deserialize, Clone, Debug, PartialEq)]
pub enum Chunking {
    Event,
    Frame,
    Flush(u32),
}

#[derive(Serialize, Deserialize, Clone, Debug, PartialEq)]
pub struct LiveSpec {
    pub chunking: Chunking,
    pub pseed: u64,
    /// connection drops (EOF) after this many bytes were delivered
    pub drop_at: Option<u64>,
}

#[derive(Serialize, Deserialize, Clone, Debug, PartialEq)]
pub struct DiskFault {
    /// cut | torn | lost | zeroed | flip | garbage | stale_header
    pub kind: String,
    pub at: u64,
    pub len: u64,
    pub pseed: u64,
}

#[derive(Serialize, Deserialize, Clone, Debug, PartialEq)]
pub struct TransportFault {
    /// drop | dup | swap | wrong_id | wrong_port | wrong_follower | illegal_event |
    /// table_edit | splitter_edit | meta_edit | raw_bytes
    pub kind: String,
    /// event index (into the recorder's event list) or kind-specific selector
    pub at: u64,
    pub arg: i64,
    pub pseed: u64,
}

#[derive(Serialize, Deserialize, Clone, Copy, Debug, PartialEq, Default)]
pub struct OptsSpec {
    pub skip_frames: bool,
    pub compute_hash: bool,
}

#[derive(Serialize, Deserialize, Clone, Copy, Debug, PartialEq, Eq)]
pub enum Api {
    OneShot,
    Incremental,
}

#[derive(Serialize, Deserialize, Clone, Copy, Debug, PartialEq, Eq)]
pub enum Compression {
    None,
    Lz4,
    Zstd,
}

#[derive(Serialize, Deserialize, Clone, Debug, PartialEq)]
pub struct ArchiveEdit {
    /// insert an unknown entry before known entry number `before` (0 = before peppi.json is NOT allowed; 1..)
    pub before: u8,
    pub name: String,
    pub size: u32,
    pub pseed: u64,
    /// tar type flag: 0 (default) regular file, b'5' directory, b'2' symlink, b'1' hard link, b'6' fifo
    #[serde(default)]
    pub typeflag: u8,
}

#[derive(Serialize, Deserialize, Clone, Debug, PartialEq)]
pub struct ScenarioSpec {
    pub property: String,
    /// S1 | S2 | S3 | S4 | S5
    pub plan: String,
    pub seed: u64,
    pub recorder: RecorderSpec,
    #[serde(default)]
    pub disk_faults: Vec<DiskFault>,
    #[serde(default)]
    pub transport_faults: Vec<TransportFault>,
    #[serde(default)]
    pub stream: StreamSpec,
    /// stream schedule used for the second (archive) read leg
    #[serde(default)]
    pub stream2: StreamSpec,
    #[serde(default)]
    pub sink: SinkSpec,
    pub live: Option<LiveSpec>,
    #[serde(default)]
    pub opts: OptsSpec,
    pub api: Api,
    pub compression: Compression,
    #[serde(default)]
    pub archive_edits: Vec<ArchiveEdit>,
    /// rewrite peppi.json's version triple (C18)
    pub archive_version: Option<[u8; 3]>,
    /// property-specific integer knobs (documented where used)
    #[serde(default)]
    pub knobs: BTreeMap<String, i64>,
    /// configuration of the embedding application: 0 = no logger, 1 = Info, 2 = Debug, 3 = Trace
    /// (log macros only evaluate their arguments when the level is enabled)
    #[serde(default)]
    pub log_level: u8,
    /// configuration of the embedding application: the reader's `Opts.debug` dump option is set
    /// (every event's payload is written under a scratch directory). Results must not depend on it.
    #[serde(default)]
    pub debug_dump: bool,
}

impl ScenarioSpec {
    pub fn knob(&self, k: &str) -> i64 {
        self.knobs.get(k).copied().unwrap_or(0)
    }
}

/// Parse JSON without serde_json's recursion limit (metadata trees in specs nest deeply).
pub fn from_json_unbounded<T: serde::de::DeserializeOwned>(text: &str) -> Result<T, String> {
    let mut de = serde_json::Deserializer::from_str(text);
    de.disable_recursion_limit();
    let v = T::deserialize(&mut de).map_err(|e| e.to_string())?;
    de.end().map_err(|e| e.to_string())?;
    Ok(v)
}

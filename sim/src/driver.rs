//! Driver / process supervisor: spawns worker processes, feeds them run
//! indexes, detects process-fatal outcomes (abort, stack overflow, hang),
//! audits determinism, minimises and persists violations, writes evidence.

use crate::known;
use crate::minimise;
use crate::props;
use crate::report::{RunReport, Violation};
use crate::spec::ScenarioSpec;
use crate::worker::Agg;
use crate::Tier;
use serde_json::json;
use std::collections::{BTreeMap, BTreeSet};
use std::io::{BufRead, BufReader, Read, Write};
use std::os::unix::process::ExitStatusExt;
use std::process::{Child, ChildStdin, ChildStdout, Command, Stdio};
use std::sync::atomic::{AtomicBool, AtomicU64, Ordering};
use std::sync::{Arc, Mutex};
use std::time::{Duration, Instant};

pub fn master_seed() -> u64 {
    std::env::var("VERIF_SEED").ok().and_then(|s| s.parse::<i64>().ok()).map(|x| x as u64).unwrap_or(1)
}

fn env_u64(name: &str, default: u64) -> u64 {
    std::env::var(name).ok().and_then(|s| s.parse().ok()).unwrap_or(default)
}

pub fn verif_dir() -> String {
    std::env::var("VERIF_DIR").unwrap_or_else(|_| "/verif".to_string())
}

fn now_ms() -> u64 {
    use std::time::{SystemTime, UNIX_EPOCH};
    SystemTime::now().duration_since(UNIX_EPOCH).unwrap().as_millis() as u64
}

pub struct Proc {
    child: Child,
    stdin: ChildStdin,
    stdout: BufReader<ChildStdout>,
    stderr: Arc<Mutex<String>>,
    pub last_activity: Arc<AtomicU64>,
    pub in_flight: Arc<AtomicBool>,
    pub killed_by_watchdog: Arc<AtomicBool>,
    pub pid: u32,
}

impl Proc {
    pub fn spawn() -> Result<Proc, String> {
        let exe = std::env::current_exe().map_err(|e| e.to_string())?;
        let mut child = Command::new(exe)
            .arg("worker")
            .stdin(Stdio::piped())
            .stdout(Stdio::piped())
            .stderr(Stdio::piped())
            .spawn()
            .map_err(|e| format!("spawn worker: {}", e))?;
        let stdin = child.stdin.take().unwrap();
        let stdout = BufReader::new(child.stdout.take().unwrap());
        let mut err = child.stderr.take().unwrap();
        let stderr = Arc::new(Mutex::new(String::new()));
        let s2 = stderr.clone();
        std::thread::spawn(move || {
            let mut buf = [0u8; 4096];
            loop {
                match err.read(&mut buf) {
                    Ok(0) | Err(_) => break,
                    Ok(n) => {
                        let mut g = s2.lock().unwrap();
                        if g.len() < 65536 {
                            g.push_str(&String::from_utf8_lossy(&buf[..n]));
                        }
                    }
                }
            }
        });
        let pid = child.id();
        Ok(Proc {
            child,
            stdin,
            stdout,
            stderr,
            last_activity: Arc::new(AtomicU64::new(now_ms())),
            in_flight: Arc::new(AtomicBool::new(false)),
            killed_by_watchdog: Arc::new(AtomicBool::new(false)),
            pid,
        })
    }

    pub fn send(&mut self, line: &str) -> bool {
        self.last_activity.store(now_ms(), Ordering::SeqCst);
        self.stdin.write_all(line.as_bytes()).is_ok() && self.stdin.write_all(b"\n").is_ok() && self.stdin.flush().is_ok()
    }

    pub fn read_line(&mut self) -> Option<String> {
        let mut l = String::new();
        match self.stdout.read_line(&mut l) {
            Ok(0) | Err(_) => None,
            Ok(_) => {
                self.last_activity.store(now_ms(), Ordering::SeqCst);
                Some(l.trim_end().to_string())
            }
        }
    }

    /// After the pipe closed: how did the process die? -> (kind, site, message)
    pub fn death(&mut self) -> (String, String, String) {
        let status = self.child.wait().ok();
        std::thread::sleep(Duration::from_millis(20)); // let the stderr thread drain
        let err = self.stderr.lock().unwrap().clone();
        let sig = status.and_then(|s| s.signal());
        if self.killed_by_watchdog.load(Ordering::SeqCst) {
            return ("watchdog".into(), "process".into(), "no output for the watchdog period; killed".into());
        }
        if err.contains("has overflowed its stack") || err.contains("stack overflow") {
            return ("stack-overflow".into(), "process".into(), "worker thread overflowed its 8 MiB stack".into());
        }
        if let Some(p) = err.find("memory allocation of ") {
            let tail: String = err[p..].lines().next().unwrap_or("").to_string();
            return ("abort".into(), "allocation".into(), tail);
        }
        let first = err.lines().rev().find(|l| !l.trim().is_empty()).unwrap_or("").to_string();
        ("abort".into(), format!("signal {:?}", sig), crate::report::short(&first, 200))
    }

    pub fn kill(&mut self) {
        let _ = self.child.kill();
        let _ = self.child.wait();
    }
}

impl Drop for Proc {
    fn drop(&mut self) {
        let _ = self.stdin.write_all(b"QUIT\n");
        let _ = self.stdin.flush();
        let _ = self.child.kill();
        let _ = self.child.wait();
    }
}

#[derive(Clone)]
struct WatchEntry {
    last: Arc<AtomicU64>,
    in_flight: Arc<AtomicBool>,
    fired: Arc<AtomicBool>,
    pid: u32,
}

struct Watchdog {
    entries: Arc<Mutex<Vec<WatchEntry>>>,
    stop: Arc<AtomicBool>,
}

impl Watchdog {
    fn start(limit_s: u64) -> Watchdog {
        let entries: Arc<Mutex<Vec<WatchEntry>>> = Arc::new(Mutex::new(vec![]));
        let stop = Arc::new(AtomicBool::new(false));
        let (e2, s2) = (entries.clone(), stop.clone());
        std::thread::spawn(move || {
            while !s2.load(Ordering::SeqCst) {
                std::thread::sleep(Duration::from_millis(250));
                let now = now_ms();
                let list = e2.lock().unwrap().clone();
                for e in list {
                    if e.in_flight.load(Ordering::SeqCst)
                        && now.saturating_sub(e.last.load(Ordering::SeqCst)) > limit_s * 1000
                        && !e.fired.swap(true, Ordering::SeqCst)
                    {
                        unsafe {
                            libc::kill(e.pid as i32, libc::SIGKILL);
                        }
                    }
                }
            }
        });
        Watchdog { entries, stop }
    }
    fn register(&self, p: &Proc) {
        let mut g = self.entries.lock().unwrap();
        g.retain(|e| !e.fired.load(Ordering::SeqCst) || e.in_flight.load(Ordering::SeqCst));
        g.push(WatchEntry { last: p.last_activity.clone(), in_flight: p.in_flight.clone(), fired: p.killed_by_watchdog.clone(), pid: p.pid });
    }
}

impl Drop for Watchdog {
    fn drop(&mut self) {
        self.stop.store(true, Ordering::SeqCst);
    }
}

/// Run one spec in an isolated child; process-fatal outcomes become violations.
pub struct Isolated {
    proc_: Option<Proc>,
    wd: Watchdog,
}

impl Isolated {
    pub fn new() -> Isolated {
        Isolated { proc_: None, wd: Watchdog::start(env_u64("VERIF_WATCHDOG_S", 60)) }
    }
    pub fn run(&mut self, spec: &ScenarioSpec) -> Result<RunReport, String> {
        if self.proc_.is_none() {
            let p = Proc::spawn()?;
            self.wd.register(&p);
            self.proc_ = Some(p);
        }
        let p = self.proc_.as_mut().unwrap();
        let line = format!("SPEC {}", serde_json::to_string(spec).map_err(|e| e.to_string())?);
        p.in_flight.store(true, Ordering::SeqCst);
        if !p.send(&line) {
            self.proc_ = None;
            return Err("worker pipe closed".into());
        }
        loop {
            match p.read_line() {
                Some(l) => {
                    if let Some(rest) = l.strip_prefix("R ") {
                        p.in_flight.store(false, Ordering::SeqCst);
                        return serde_json::from_str(rest).map_err(|e| e.to_string());
                    }
                }
                None => {
                    p.in_flight.store(false, Ordering::SeqCst);
                    let (kind, site, msg) = p.death();
                    self.proc_ = None;
                    let mut rep = RunReport::default();
                    rep.violation = Some(Violation::new(&spec.property, &kind, site, msg));
                    return Ok(rep);
                }
            }
        }
    }
}

struct Shared {
    next: Mutex<u64>,
    limit: u64, // exclusive upper bound on indexes (quick); u64::MAX for time-budgeted
    chunk: u64,
    deadline: Option<Instant>,
    stop: AtomicBool,
    results: Mutex<Collected>,
}

#[derive(Default)]
struct Collected {
    agg: Agg,
    states: BTreeSet<u64>,
    interleavings: BTreeSet<u64>,
    shapes: BTreeSet<u64>,
    shapes_nontrivial: BTreeSet<u64>,
    violations: Vec<(u64, Violation)>,
    digests: BTreeMap<u64, u64>,
    harness_errors: Vec<String>,
    runs_done: u64,
    worker_restarts: u64,
    sig_counts: BTreeMap<String, u64>,
    known_counts: BTreeMap<String, u64>,
}


const AUDIT_STRIDE: u64 = 50;

fn is_known(known: &[known::Known], prop: &str, tier: Tier, master: u64, index: u64, v: &Violation) -> Option<String> {
    if known.is_empty() {
        return None;
    }
    let spec = props::gen(prop, crate::run_seed(master, prop, index), tier);
    known::matches(known, v, &spec).map(|k| k.id.clone())
}

fn record_violation(g: &mut Collected, known: &[known::Known], prop: &str, tier: Tier, master: u64, i: u64, v: Violation) {
    if let Some(id) = is_known(known, prop, tier, master, i, &v) {
        // one representative per listed finding (two findings may share a panic site)
        let c = g.known_counts.entry(format!("{} [{}]", v.sig(), id)).or_default();
        *c += 1;
        if *c <= 1 {
            g.violations.push((i, v));
        }
        return;
    }
    let c = g.sig_counts.entry(v.sig()).or_default();
    *c += 1;
    if *c <= 4 {
        g.violations.push((i, v));
    }
}

fn worker_loop(shared: Arc<Shared>, wd: Arc<Watchdog>, prop: String, tier: Tier, master: u64, audit: Option<Arc<Mutex<Vec<u64>>>>, known: Arc<Vec<known::Known>>) {
    let mut proc_: Option<Proc> = None;
    loop {
        if shared.stop.load(Ordering::SeqCst) {
            break;
        }
        // next piece of work
        let (mut start, end) = if let Some(a) = &audit {
            match a.lock().unwrap().pop() {
                Some(i) => (i, i + 1),
                None => break,
            }
        } else {
            if let Some(d) = shared.deadline {
                if Instant::now() >= d {
                    break;
                }
            }
            let mut g = shared.next.lock().unwrap();
            if *g >= shared.limit {
                break;
            }
            let s = *g;
            let e = (s + shared.chunk).min(shared.limit);
            *g = e;
            (s, e)
        };
        while start < end {
            if shared.stop.load(Ordering::SeqCst) {
                break;
            }
            if proc_.is_none() {
                match Proc::spawn() {
                    Ok(p) => {
                        wd.register(&p);
                        proc_ = Some(p);
                    }
                    Err(e) => {
                        shared.results.lock().unwrap().harness_errors.push(e);
                        shared.stop.store(true, Ordering::SeqCst);
                        return;
                    }
                }
            }
            let p = proc_.as_mut().unwrap();
            p.in_flight.store(true, Ordering::SeqCst);
            if !p.send(&format!("CHUNK {} {} {} {} {}", prop, tier.name(), master, start, end)) {
                proc_ = None;
                shared.results.lock().unwrap().worker_restarts += 1;
                continue;
            }
            let mut current: Option<u64> = None;
            let mut done_chunk = false;
            let mut local: Vec<(u64, u64, Option<Violation>)> = vec![];
            loop {
                match p.read_line() {
                    Some(l) => {
                        if let Some(rest) = l.strip_prefix("B ") {
                            current = rest.parse().ok();
                        } else if let Some(rest) = l.strip_prefix("E ") {
                            let mut it = rest.splitn(4, ' ');
                            let i: u64 = it.next().and_then(|x| x.parse().ok()).unwrap_or(0);
                            let d = it.next().and_then(|x| u64::from_str_radix(x, 16).ok()).unwrap_or(0);
                            let status = it.next().unwrap_or("");
                            let v = if status == "V" { it.next().and_then(|j| serde_json::from_str::<Violation>(j).ok()) } else { None };
                            local.push((i, d, v));
                            current = None;
                            start = i + 1;
                        } else if let Some(rest) = l.strip_prefix("S ") {
                            if let (Ok(a), true) = (serde_json::from_str::<Agg>(rest), audit.is_none()) {
                                let mut g = shared.results.lock().unwrap();
                                g.agg.merge(&a);
                                g.states.extend(a.states.iter());
                                g.interleavings.extend(a.interleavings.iter());
                                g.shapes.extend(a.shapes.iter());
                                g.shapes_nontrivial.extend(a.shapes_nontrivial.iter());
                            }
                            done_chunk = true;
                            break;
                        }
                    }
                    None => break,
                }
            }
            p.in_flight.store(false, Ordering::SeqCst);
            {
                let mut g = shared.results.lock().unwrap();
                for (i, d, v) in local.drain(..) {
                    g.runs_done += 1;
                    if audit.is_some() || i % AUDIT_STRIDE == 0 {
                        if audit.is_some() {
                            // audit pass: compare with the first pass
                            if let Some(prev) = g.digests.get(&i).copied() {
                                if prev != d {
                                    g.harness_errors.push(format!("determinism audit: run index {} digest {:016x} then {:016x}", i, prev, d));
                                }
                            }
                        } else {
                            g.digests.insert(i, d);
                        }
                    }
                    if audit.is_none() {
                        if let Some(v) = v {
                            record_violation(&mut g, &known, &prop, tier, master, i, v);
                        }
                    }
                }
            }
            if !done_chunk {
                // worker died in the middle of run `current`
                let (kind, site, msg) = proc_.as_mut().unwrap().death();
                proc_ = None;
                if std::env::var("VERIF_DEBUG").is_ok() {
                    eprintln!("[driver] worker died during run {:?}: {} {} {}", current, kind, site, msg);
                }
                let mut g = shared.results.lock().unwrap();
                g.worker_restarts += 1;
                match current {
                    Some(i) => {
                        g.runs_done += 1;
                        if audit.is_none() {
                            let v = Violation::new(&prop, &kind, site, msg);
                            record_violation(&mut g, &known, &prop, tier, master, i, v);
                        }
                        start = i + 1;
                    }
                    None => {
                        g.harness_errors.push(format!("worker died outside a run: {} {}", kind, msg));
                        shared.stop.store(true, Ordering::SeqCst);
                        return;
                    }
                }
            }
            // enough evidence of one failure: stop exploring (keeps defect trees from costing minutes)
            {
                let g = shared.results.lock().unwrap();
                let slow = g.sig_counts.iter().any(|(k, c)| (k.contains("/watchdog/") || k.contains("/no-progress/")) && *c >= 4);
                if slow || g.sig_counts.values().any(|c| *c >= 64) || g.sig_counts.len() >= 12 {
                    shared.stop.store(true, Ordering::SeqCst);
                }
            }
        }
    }
}

fn sample_of(spec: &ScenarioSpec) -> serde_json::Value {
    let r = &spec.recorder;
    json!({
        "plan": spec.plan,
        "version": format!("{}.{}.{}", r.version[0], r.version[1], r.version[2]),
        "ports": r.ports.iter().map(|p| format!("P{}{}{}", p.port + 1, if p.ics { "+ICs" } else { "" }, match p.ptype { 1 => "(cpu)", 2 => "(demo)", _ => "" })).collect::<Vec<_>>(),
        "frame_occurrences": r.frames.len(),
        "first_ids": r.frames.iter().take(8).map(|f| f.id).collect::<Vec<_>>(),
        "presence_masks": r.frames.iter().take(8).map(|f| f.present).collect::<Vec<_>>(),
        "items_total": r.frames.iter().map(|f| f.items as u64).sum::<u64>(),
        "gecko_len": r.gecko.as_ref().map(|g| g.len),
        "end": format!("{:?}", r.end),
        "metadata_keys": r.metadata.as_ref().map(|t| t.len()),
        "unknown_events": r.extras.unknown.len(),
        "trailing": r.extras.trailing,
        "stream": format!("{:?} eintr@{:?} hard_error@{:?}", spec.stream.mode, spec.stream.eintr_calls, spec.stream.hard_error_call),
        "sink": format!("{:?} eintr@{:?}", spec.sink.mode, spec.sink.eintr_calls),
        "disk_faults": spec.disk_faults.iter().map(|f| format!("{}@{}+{}", f.kind, f.at, f.len)).collect::<Vec<_>>(),
        "transport_faults": spec.transport_faults.iter().map(|f| format!("{}@{}({})", f.kind, f.at, f.arg)).collect::<Vec<_>>(),
        "live": spec.live.as_ref().map(|l| format!("{:?} drop_at={:?}", l.chunking, l.drop_at)),
        "opts": format!("skip_frames={} compute_hash={}", spec.opts.skip_frames, spec.opts.compute_hash),
        "api": format!("{:?}", spec.api),
        "compression": format!("{:?}", spec.compression),
        "knobs": spec.knobs,
    })
}

fn spec_digest(spec: &ScenarioSpec) -> String {
    let s = serde_json::to_string(spec).unwrap_or_default();
    format!("{:016x}", crate::prng::mix_str(0xD16E, &s))
}

pub struct Finding {
    pub index: u64,
    pub violation: Violation,
    pub replay_path: String,
    pub known: Option<String>,
    pub minimised_frames: usize,
    pub candidates_tried: u32,
}

fn write_replay(prop: &str, tier: Tier, master: u64, index: u64, original: &ScenarioSpec, minimised: &ScenarioSpec, v: &Violation, rep: Option<&RunReport>) -> String {
    let dir = format!("{}/out/replays", verif_dir());
    let _ = std::fs::create_dir_all(&dir);
    let sig = format!("{:08x}", crate::prng::mix_str(0, &v.sig()) as u32);
    let path = format!("{}/{}-{}-{}.json", dir, prop, index, sig);
    let doc = json!({
        "property": v.property,
        "kind": v.kind,
        "site": v.site,
        "message": v.message,
        "verif_seed": master,
        "tier": tier.name(),
        "run_index": index,
        "run_seed": crate::run_seed(master, prop, index),
        "original_spec_digest": spec_digest(original),
        "original_frames": original.recorder.frames.len(),
        "spec": minimised,
        "stream_ops": rep.map(|r| r.oplog.clone()).unwrap_or_default(),
        "faults_fired": rep.map(|r| r.faults.clone()).unwrap_or_default(),
    });
    let _ = std::fs::write(&path, serde_json::to_string_pretty(&doc).unwrap());
    path
}

/// `simctl check <PROP> <tier>`
pub fn check(prop: &str, tier: Tier) -> i32 {
    let t0 = Instant::now();
    if !props::CLAIMED.contains(&prop) {
        eprintln!("HARNESS-ERROR unknown or unclaimed property {}", prop);
        return 2;
    }
    if let Err(e) = crate::selfcheck::run() {
        eprintln!("HARNESS-ERROR selfcheck: {}", e);
        return 2;
    }
    let known = match known::load() {
        Ok(k) => k,
        Err(e) => {
            eprintln!("HARNESS-ERROR known findings: {}", e);
            return 2;
        }
    };
    let master = master_seed();
    let workers = env_u64("VERIF_WORKERS", 16).max(1) as usize;
    let (limit, deadline) = match tier {
        Tier::Quick => (env_u64("VERIF_RUNS", props::quick_runs(prop)), None),
        Tier::Thorough => (env_u64("VERIF_MAX_RUNS", u64::MAX / 4), Some(Instant::now() + Duration::from_secs(env_u64("VERIF_BUDGET_S", 300)))),
    };
    println!("simctl check {} {} VERIF_SEED={} workers={}", prop, tier.name(), master, workers);
    let chunk = if limit < u64::MAX / 8 { (limit / (workers as u64 * 6)).clamp(1, 128) } else { props::thorough_chunk(prop) };
    let shared = Arc::new(Shared { next: Mutex::new(0), limit, chunk, deadline, stop: AtomicBool::new(false), results: Mutex::new(Collected::default()) });
    let wd = Arc::new(Watchdog::start(env_u64("VERIF_WATCHDOG_S", 60)));
    let known_arc = Arc::new(known.clone());
    let mut hs = vec![];
    for _ in 0..workers {
        let (s, w, p, k) = (shared.clone(), wd.clone(), prop.to_string(), known_arc.clone());
        hs.push(std::thread::spawn(move || worker_loop(s, w, p, tier, master, None, k)));
    }
    for h in hs {
        let _ = h.join();
    }
    let main_wall = t0.elapsed().as_secs_f64();
    let runs_main = shared.results.lock().unwrap().runs_done;

    // determinism audit: a fresh pool re-executes a sample
    let audit_list: Vec<u64> = {
        let g = shared.results.lock().unwrap();
        let mut v: Vec<u64> = g.digests.keys().copied().collect();
        let cap = env_u64("VERIF_AUDIT_MAX", 4000) as usize;
        if v.len() > cap {
            let stride = v.len() / cap + 1;
            v = v.into_iter().step_by(stride).collect();
        }
        v
    };
    let audited = audit_list.len();
    let early_stop = shared.stop.load(Ordering::SeqCst);
    if !early_stop {
        let list = Arc::new(Mutex::new(audit_list));
        let aw = workers.min(8).max(1);
        let mut hs = vec![];
        for _ in 0..aw {
            let (s, w, p, l, k) = (shared.clone(), wd.clone(), prop.to_string(), list.clone(), known_arc.clone());
            hs.push(std::thread::spawn(move || worker_loop(s, w, p, tier, master, Some(l), k)));
        }
        for h in hs {
            let _ = h.join();
        }
    }

    let mut col = std::mem::take(&mut *shared.results.lock().unwrap());
    // order-independent summary of the sampled run digests: equal across worker counts and processes
    let sample_digest = col.digests.iter().fold(0xA0D17u64, |h, (i, d)| crate::prng::mix(crate::prng::mix(h, *i), *d));
    col.violations.sort_by_key(|(i, _)| *i);

    // triage: one finding per distinct signature
    let mut findings: Vec<Finding> = vec![];
    let mut unconfirmed_stalls: u64 = 0;
    let mut seen_sig: BTreeSet<String> = BTreeSet::new();
    let mut iso = Isolated::new();
    for (index, v) in &col.violations {
        let seed = crate::run_seed(master, prop, *index);
        let original = props::gen(prop, seed, tier);
        // which listed finding (if any) this is, judged on the run as it happened
        let k_orig: Option<String> = known::matches(&known, v, &original).map(|k| k.id.clone());
        if !seen_sig.insert(format!("{}|{:?}", v.sig(), k_orig)) {
            continue;
        }
        if findings.len() >= 6 {
            break;
        }
        let mut budget = minimise::Budget::new(env_u64("VERIF_MIN_CANDIDATES", 2000) as u32, env_u64("VERIF_MIN_SECS", 15));
        // a candidate only counts as "the same failure" if it is the same listed finding, or equally unlisted:
        // shrinking must never turn a new violation into a listed one (or one listed finding into another)
        let mut runner = |s: &ScenarioSpec| -> Option<Violation> {
            iso.run(s).ok().and_then(|r| r.violation).filter(|cv| known::matches(&known, cv, s).map(|k| k.id.clone()) == k_orig)
        };
        // confirm in isolation first
        let confirmed = runner(&original);
        let (minimised, target) = match confirmed {
            Some(cv) if cv.property == v.property && cv.kind == v.kind && cv.site == v.site => {
                // a fault in the minimiser must never cost the finding: fall back to the run as it happened
                let m = match std::panic::catch_unwind(std::panic::AssertUnwindSafe(|| minimise::minimise(&original, &cv, &mut runner, &mut budget))) {
                    Ok(m) => m,
                    Err(_) => {
                        eprintln!("HARNESS-WARN minimiser failed on run index {}; reporting the unminimised scenario", index);
                        original.clone()
                    }
                };
                (m, cv)
            }
            Some(cv) => {
                col.harness_errors.push(format!("run index {} reported {} but isolated re-run reported {}", index, v.sig(), cv.sig()));
                (original.clone(), v.clone())
            }
            None if v.kind == "watchdog" => {
                // The only oracle measured in real seconds. A run that went silent in the pool but completes when
                // re-executed alone was starved by the machine (other processes, 16 workers), not stalled: it is
                // not a finding. A genuine stall is deterministic and stalls again here.
                eprintln!("NOTE run index {} went silent for the watchdog period in the worker pool but completed when re-run in isolation: machine load, not reported", index);
                unconfirmed_stalls += 1;
                continue;
            }
            None => {
                col.harness_errors.push(format!("run index {} reported {} but isolated re-run reported nothing", index, v.sig()));
                (original.clone(), v.clone())
            }
        };
        let final_rep = iso.run(&minimised).ok();
        let final_v = final_rep.as_ref().and_then(|r| r.violation.clone()).unwrap_or(target.clone());
        let path = write_replay(prop, tier, master, *index, &original, &minimised, &final_v, final_rep.as_ref());
        let k = known::matches(&known, &final_v, &minimised).map(|k| k.id.clone()).filter(|id| Some(id) == k_orig.as_ref());
        findings.push(Finding {
            index: *index,
            violation: final_v,
            replay_path: path,
            known: k,
            minimised_frames: minimised.recorder.frames.len(),
            candidates_tried: budget.tried,
        });
    }
    drop(iso);

    // C18's statement includes "writing the same game twice gives identical bytes": for that
    // property an output that differs between two worker processes is a violation, not a harness error
    if prop == "C18" {
        let mism: Vec<String> = col.harness_errors.iter().filter(|e| e.starts_with("determinism audit")).cloned().collect();
        if let Some(first) = mism.first() {
            let idx: u64 = first.split_whitespace().nth(5).and_then(|x| x.parse().ok()).unwrap_or(0);
            let spec = props::gen(prop, crate::run_seed(master, prop, idx), tier);
            let v = Violation::new(prop, "nondeterministic-output", "across-processes", first.clone());
            let path = write_replay(prop, tier, master, idx, &spec, &spec, &v, None);
            findings.push(Finding { index: idx, violation: v, replay_path: path, known: None, minimised_frames: spec.recorder.frames.len(), candidates_tried: 0 });
            col.harness_errors.retain(|e| !e.starts_with("determinism audit"));
        }
    }
    // a panic of the harness itself inside a run is a harness error (exit 2), never a property violation
    for f in findings.iter().filter(|f| f.violation.kind == "harness-error") {
        col.harness_errors.push(format!("{} (replay {})", f.violation.message, f.replay_path));
    }
    findings.retain(|f| f.violation.kind != "harness-error");
    let unknown: Vec<&Finding> = findings.iter().filter(|f| f.known.is_none()).collect();
    let wall = t0.elapsed().as_secs_f64();

    // evidence
    let agg = &col.agg;
    let samples: Vec<serde_json::Value> = (0..3u64.min(runs_main.max(1)))
        .map(|i| {
            let idx = i * (runs_main.max(1) / 3).max(1);
            let s = props::gen(prop, crate::run_seed(master, prop, idx), tier);
            json!({"run_index": idx, "scenario": sample_of(&s)})
        })
        .collect();
    let meta = props::meta(prop);
    let ev = json!({
        "property_id": prop,
        "tier": tier.name(),
        "seed": master as i64,
        "level": meta.level,
        "coverage": {
            "evaluations": agg.runs.max(runs_main),
            "distinct_nontrivial": col.shapes_nontrivial.len(),
            "rule": meta.rule,
            "samples": samples,
            "exhaustive": false,
            "oracle_checks": agg.checks,
            "nontrivial_runs": agg.nontrivial_runs,
            "distinct_shapes_all": col.shapes.len(),
            "runs_per_hour": if main_wall > 0.0 { (agg.runs as f64 / main_wall * 3600.0) as u64 } else { 0 },
            "sim_time_s": agg.sim_time_ns as f64 / 1e9,
            "stream_calls": agg.stream_calls,
            "faults_fired": agg.faults,
            "probes": agg.probes,
            "skipped_legs": agg.skipped,
            "distinct_states": col.states.len(),
            "distinct_interleavings": col.interleavings.len(),
            "states_measure": meta.states_measure,
            "interleavings_measure": "distinct (event kind, byte offset inside the event at which a read returned short) pairs plus, on the live pipe, distinct (recorder steps so far, parser read calls so far) pairs at each recorder activation",
            "real_components": ["peppi (built from the repository's working tree)", "arrow2 0.17", "tar 0.4", "serde_json", "xxhash-rust", "byteorder", "encoding_rs", "lz4 / zstd (C libraries via arrow2)", "the file system under the Opts.debug dump directory (real tmpfs, written by peppi, never read back; one scenario in 24)"],
            "stub_components": ["recorder (reference model + workload)", "disk / pipe (SimStream, SimSink)", "live pipe scheduler", "process supervisor + watchdog", "allocator budget (1 GiB single request)"],
            "determinism_audit": {"rechecked": if early_stop { 0 } else { audited }, "mismatches": col.harness_errors.iter().filter(|e| e.starts_with("determinism audit")).count()},
            "sampled_run_digest": format!("{:016x}", sample_digest),
            "worker_restarts": col.worker_restarts,
            "stalls_not_confirmed_in_isolation": unconfirmed_stalls,
            "stopped_early_on_violations": early_stop,
            "known_finding_hits": col.known_counts,
            "workers": workers,
            "findings": findings.iter().map(|f| json!({
                "run_index": f.index, "kind": f.violation.kind, "site": f.violation.site, "message": f.violation.message,
                "replay": f.replay_path, "known_finding": f.known, "minimised_frames": f.minimised_frames, "minimiser_candidates": f.candidates_tried,
            })).collect::<Vec<_>>(),
        },
        "assumptions": meta.assumptions,
        "wall_s": wall,
        "violations": unknown.len(),
    });
    let evdir = format!("{}/evidence", verif_dir());
    let _ = std::fs::create_dir_all(&evdir);
    let evpath = format!("{}/{}.json", evdir, prop);
    if let Err(e) = std::fs::write(&evpath, serde_json::to_string_pretty(&ev).unwrap()) {
        eprintln!("HARNESS-ERROR cannot write {}: {}", evpath, e);
        return 2;
    }

    println!("sampled-run-digest={:016x} (every {}th run index; identical for any worker count)", sample_digest, AUDIT_STRIDE);
    println!(
        "runs={} wall={:.1}s runs/h={} nontrivial-shapes={} states={} interleavings={} audit={} restarts={}",
        agg.runs,
        wall,
        if main_wall > 0.0 { (agg.runs as f64 / main_wall * 3600.0) as u64 } else { 0 },
        col.shapes_nontrivial.len(),
        col.states.len(),
        col.interleavings.len(),
        audited,
        col.worker_restarts
    );
    for f in &findings {
        match &f.known {
            Some(id) => {
                let what = known.iter().find(|k| &k.id == id).map(|k| k.what.clone()).unwrap_or_default();
                println!("KNOWN-FINDING: property={} {} [{}] ({}/{}) replay={}", prop, what, id, f.violation.kind, f.violation.site, f.replay_path);
            }
            None => {
                println!("  {} / {} : {}", f.violation.kind, f.violation.site, f.violation.message);
                println!("VIOLATION property={} replay={}", prop, f.replay_path);
            }
        }
    }
    if !col.harness_errors.is_empty() {
        for e in col.harness_errors.iter().take(10) {
            eprintln!("HARNESS-ERROR {}", e);
        }
        if unknown.is_empty() {
            return 2;
        }
    }
    if !unknown.is_empty() {
        return 1;
    }
    println!("OK property={} held on everything explored", prop);
    0
}

/// `simctl replay <file>`: re-execute the minimised spec in a fresh process.
pub fn replay(path: &str) -> i32 {
    let text = match std::fs::read_to_string(path) {
        Ok(t) => t,
        Err(e) => {
            eprintln!("HARNESS-ERROR {}: {}", path, e);
            return 2;
        }
    };
    let doc: serde_json::Value = match crate::spec::from_json_unbounded(&text) {
        Ok(d) => d,
        Err(e) => {
            eprintln!("HARNESS-ERROR {}: {}", path, e);
            return 2;
        }
    };
    let spec: ScenarioSpec = match serde_json::from_value(doc["spec"].clone()) {
        Ok(s) => s,
        Err(e) => {
            eprintln!("HARNESS-ERROR {}: spec: {}", path, e);
            return 2;
        }
    };
    let mut iso = Isolated::new();
    let rep = match iso.run(&spec) {
        Ok(r) => r,
        Err(e) => {
            eprintln!("HARNESS-ERROR {}", e);
            return 2;
        }
    };
    match rep.violation {
        None => {
            println!("NOT-REPRODUCED: the replayed scenario ran without a violation");
            0
        }
        Some(v) => {
            let same = doc["kind"].as_str() == Some(v.kind.as_str()) && doc["site"].as_str() == Some(v.site.as_str());
            println!("{}: {} / {} : {}", if same { "REPRODUCED" } else { "DIFFERENT-VIOLATION" }, v.kind, v.site, v.message);
            // a listed finding stays a listed finding when its file is replayed
            let known = known::load().unwrap_or_default();
            if let Some(k) = known::matches(&known, &v, &spec) {
                println!("KNOWN-FINDING: property={} {} [{}] ({}/{}) replay={}", v.property, k.what, k.id, v.kind, v.site, path);
                return 0;
            }
            println!("VIOLATION property={} replay={}", v.property, path);
            1
        }
    }
}

//! C03 — every decoded frame field equals the bytes at its spec offset (S1 + S2, value-focused workload).

use super::common::*;
use crate::gen::{self, GenCfg, SizeClass};
use crate::layout as L;
use crate::oracle;
use crate::prng::Rng;
use crate::recorder;
use crate::report::{Ctx, Violation};
use crate::s2;
use crate::spec::*;
use crate::Tier;

const P: &str = "C03";

pub fn gen(seed: u64, tier: Tier) -> ScenarioSpec {
    let mut rng = Rng::new(seed);
    // every gate threshold and its predecessor comes round deterministically
    let idx = rng.usize_below(2 * L::GATES.len() + 8);
    let force_version = if idx < 2 * L::GATES.len() {
        let g = L::GATES[idx / 2];
        let (ma, mi) = if idx % 2 == 1 {
            if g == (0, 1) {
                g
            } else if g.1 > 0 {
                (g.0, g.1 - 1)
            } else if g.0 > 0 {
                (g.0 - 1, 255)
            } else {
                g
            }
        } else {
            g
        };
        let patch = if (ma, mi) == (3, 16) { 0 } else { *rng.pick(&[0u8, 1, 255]) };
        Some([ma, mi, patch])
    } else {
        None
    };
    let cfg = GenCfg {
        allow_large: false,
        min_frames: 1,
        force_version,
        size: Some(if tier == Tier::Thorough && rng.chance(1, 10) { SizeClass::Medium } else { SizeClass::Small }),
        ..Default::default()
    };
    let mut rec = gen::gen_recorder(&mut rng, &cfg);
    rec.special_rate = *rng.pick(&[0u8, 2, 2, 4]);
    // make sure items exist when the version has them
    if L::gte((rec.version[0], rec.version[1]), (3, 0)) && !rec.frames.is_empty() {
        let k = rng.usize_below(rec.frames.len());
        rec.frames[k].items = rec.frames[k].items.max(1 + rng.below(3) as u16);
    }
    // now and then the recorder is a newer build that interleaves events this library does not know
    // (declared in the payload table); the known events around them must decode as before
    if rng.chance(1, 8) {
        rec.extras.unknown = super::c17::gen_unknown(&mut rng, super::c17::events_hint(&rec), 2);
    }
    let len = gen::approx_len(&rec);
    let live = rng.chance(3, 10);
    let mut spec = gen::base_spec(P, if live { "S2" } else { "S1" }, seed, rec);
    spec.stream = gen::gen_stream(&mut rng, len, true);
    if live {
        spec.api = Api::Incremental;
        if rng.chance(1, 2) {
            spec.live = Some(gen_live(&mut rng, len, 15));
            spec.knobs.insert("resume".into(), 1);
        }
    }
    spec.knobs.insert("prelude".into(), gen_prelude(&mut rng, &[1, 4, 5], 8));
    spec
}

pub fn run(spec: &ScenarioSpec, ctx: &mut Ctx) -> Result<(), Violation> {
    let m = recorder::build(&spec.recorder);
    ctx.rep.sim_time_ns += m.sim_time_ns();
    shape_of_model(ctx, &m, spec);
    prelude(spec.knob("prelude"), spec.seed, &m, ctx);
    ctx.shape("api", (spec.api == Api::Incremental) as u64);
    ctx.shape("special", spec.recorder.special_rate as u64);
    ctx.probe_if(!spec.recorder.extras.unknown.is_empty(), "unknown (declared) events interleaved with the frame events");
    // one probe per gate actually exercised
    ctx.probe(&format!("layout of version class >= {}.{}", L::GATES[version_class(m.v) as usize].0, L::GATES[version_class(m.v) as usize].1));
    if spec.api == Api::Incremental {
        return s2::run(spec, &m, ctx, P, s2::Flags { model_rows: true, row_view: false, protocol: false, final_equiv: false });
    }
    let Some(game) = s1_read(P, spec, &m, ctx, false)? else { return Ok(()) };
    let n = oracle::check_all_rows(&m, &game.frames).map_err(|f| fail_v(P, f))?;
    ctx.checks(n);
    ctx.rep.nontrivial = !m.occs.is_empty();
    Ok(())
}

//! C18 — .slpp is a tar starting with peppi.json whose entries agree with each other (S1 archive inspection + mutator).

use super::common::*;
use crate::archive::Archive;
use crate::gen::{self, GenCfg, SizeClass};
use crate::pipeline::*;
use crate::prng::Rng;
use crate::recorder;
use crate::report::{Ctx, Violation};
use crate::spec::*;
use crate::tok::{tar_entry_bytes, tar_special_entry_bytes};
use crate::Tier;

const P: &str = "C18";

const KNOWN_NAMES: &[&str] = &["peppi.json", "metadata.json", "start.json", "start.raw", "end.json", "end.raw", "gecko_codes.raw", "frames.arrow"];

pub fn gen(seed: u64, tier: Tier) -> ScenarioSpec {
    let mut rng = Rng::new(seed);
    let cfg = GenCfg {
        size: Some(match rng.below(10) {
            0 => SizeClass::Tiny,
            1..=7 => SizeClass::Small,
            _ => {
                if tier == Tier::Thorough {
                    SizeClass::Medium
                } else {
                    SizeClass::Small
                }
            }
        }),
        ..Default::default()
    };
    let rec = gen::gen_recorder(&mut rng, &cfg);
    let len = gen::approx_len(&rec);
    let mut spec = gen::base_spec(P, "S1", seed, rec);
    spec.sink = gen::gen_sink(&mut rng, false);
    spec.stream2 = gen::gen_stream(&mut rng, len + 8192, false);
    spec.opts.compute_hash = rng.chance(1, 2);
    spec.compression = *rng.pick(&[Compression::None, Compression::Lz4, Compression::Zstd]);
    // archive mutator: unknown entries before frames.arrow
    if rng.chance(1, 2) {
        let n = 1 + rng.below(5);
        for _ in 0..n {
            let name = match if rng.chance(1, 8) { 99 } else { rng.below(8) } {
                // names are bytes: some are not ASCII, some not even UTF-8 (Latin-1, a lone Shift-JIS lead byte, 0xFF 0xFE)
                99 => (*rng.pick(&["r\u{e9}sum\u{e9}.txt", "\u{30e1}\u{30e2}.txt", "raw:caf\u{e9}.txt", "raw:\u{ff}\u{fe}notes", "raw:\u{83}", "raw:start.raw\u{80}", "raw:\u{e9}/metadata.json.\u{e9}"])).to_string(),
                6 => {
                    // a long (GNU) name whose first 100 bytes end in a known entry name: only the full name says it is unknown
                    let k = *rng.pick(&["start.raw", "end.raw", "peppi.json", "metadata.json", "frames.arrow", "gecko_codes.raw", "start.json"]);
                    format!("{}/{}{}", "x".repeat(100 - k.len() - 1), k, *rng.pick(&[".orig", ".bak", "2", "~"]))
                }
                7 => format!("{}/", *rng.pick(&["notes", "extra.d", "frames.arrow.d"])),
                5 => {
                    // a single file name that merely CONTAINS a known name after a backslash or other separator-like character
                    let k = *rng.pick(&["start.raw", "end.raw", "peppi.json", "metadata.json", "frames.arrow", "gecko_codes.raw"]);
                    format!("{}{}{}", *rng.pick(&["backup", "old", "v1"]), *rng.pick(&["\\", ":", " ", "#"]), k)
                }
                0 => "notes.txt".to_string(),
                1 => "extra.json".to_string(),
                2 => "sub/dir/thing.bin".to_string(),
                3 => format!("{}.dat", "x".repeat(100 + rng.usize_below(120))),
                4 => "peppi.json.bak".to_string(),
                _ => format!("u{}.raw", rng.below(1000)),
            };
            // some unknown entries are not regular files (a directory, a symlink, a fifo)
            let typeflag = if name.ends_with('/') { b'5' } else if rng.chance(1, 8) { *rng.pick(&[b'2', b'1', b'6', b'5']) } else { 0 };
            // sizes: mostly small, now and then tens of megabytes (skipping an entry must not depend on its size)
            let size = if rng.chance(1, 4) {
                0
            } else if typeflag == 0 && rng.chance(1, 150) {
                (16 << 20) + 1 + rng.below(4 << 20) as u32
            } else {
                rng.below(5000) as u32
            };
            spec.archive_edits.push(ArchiveEdit { before: rng.below(8) as u8, name, size, pseed: rng.next_u64(), typeflag });
        }
    }
    spec.knobs.insert("prelude".into(), gen_prelude(&mut rng, &[3, 5], 3));
    if rng.chance(1, 8) {
        // biased to the tail of the archive (padding, Arrow footer, end-of-archive blocks)
        let approx = 9000 + 2 * len as i64;
        spec.knobs.insert("enospc".into(), if rng.chance(1, 2) { approx - rng.below(9000) as i64 } else { rng.below(approx as u64) as i64 });
    }
    if rng.chance(1, 3) {
        spec.archive_version = Some(match rng.below(8) {
            0 => [1, 255, 255],
            1 => [2, 0, 0],
            2 => [0, 0, 0],
            3 => [2, 0, 1],
            4 => [1, 0, 0],
            5 => [255, 255, 255],
            _ => [rng.below(4) as u8, rng.below(256) as u8, rng.below(256) as u8],
        });
    }
    spec
}

fn rebuild(ar: &Archive, edits: &[ArchiveEdit], version: Option<[u8; 3]>) -> Result<Vec<u8>, String> {
    let mut out = vec![];
    // frames.arrow (if any) stays last: insert positions are clamped to before it
    let n = ar.entries.len();
    let last_insert = if ar.entries.last().map_or(false, |e| e.name == "frames.arrow") { n - 1 } else { n };
    for (i, e) in ar.entries.iter().enumerate() {
        for ed in edits.iter().filter(|ed| (ed.before as usize).min(last_insert) == i) {
            if ed.typeflag != 0 {
                out.extend_from_slice(&tar_special_entry_bytes(&ed.name, ed.typeflag));
                continue;
            }
            let mut d = vec![0u8; ed.size as usize];
            Rng::new(ed.pseed).fill(&mut d);
            out.extend_from_slice(&tar_entry_bytes(&ed.name, &d));
        }
        let data = &ar.bytes[e.data_off..e.data_off + e.size];
        if e.name == "peppi.json" {
            if let Some(v) = version {
                let mut j: serde_json::Value = serde_json::from_slice(data).map_err(|e| e.to_string())?;
                j["version"] = serde_json::json!([v[0], v[1], v[2]]);
                out.extend_from_slice(&tar_entry_bytes(&e.name, j.to_string().as_bytes()));
                continue;
            }
        }
        out.extend_from_slice(&tar_entry_bytes(&e.name, data));
    }
    for ed in edits.iter().filter(|ed| (ed.before as usize).min(last_insert) >= n) {
        if ed.typeflag != 0 {
            out.extend_from_slice(&tar_special_entry_bytes(&ed.name, ed.typeflag));
            continue;
        }
        let mut d = vec![0u8; ed.size as usize];
        Rng::new(ed.pseed).fill(&mut d);
        out.extend_from_slice(&tar_entry_bytes(&ed.name, &d));
    }
    out.extend_from_slice(&[0u8; 1024]);
    Ok(out)
}

pub fn run(spec: &ScenarioSpec, ctx: &mut Ctx) -> Result<(), Violation> {
    let m = recorder::build(&spec.recorder);
    shape_of_model(ctx, &m, spec);
    ctx.shape("comp", spec.compression as u64);
    ctx.shape("edits", spec.archive_edits.len().min(3) as u64);
    ctx.shape("aver", spec.archive_version.map_or(0, |v| 1 + (v >= [2, 0, 0]) as u64));
    let edges = m.edges();
    prelude(spec.knob("prelude"), spec.seed, &m, ctx);
    ctx.shape("prelude", spec.knob("prelude") as u64);
    let ga = expect_ok(P, "slippi::read", read_slp(&m.bytes, &StreamSpec::default(), &edges, spec.opts).res)?;
    let gb = expect_ok(P, "slippi::read", read_slp(&m.bytes, &StreamSpec::default(), &edges, spec.opts).res)?;
    let has_frames = ga.frames.len() > 0;
    let has_end = ga.end.is_some();
    let has_gecko = ga.gecko_codes.is_some();
    // now and then the disk fills up while the archive is written: then there is no archive and the writer must say so
    if let Some(budget) = spec.knobs.get("enospc").copied() {
        let gfull = expect_ok(P, "slippi::read", read_slp(&m.bytes, &StreamSpec::default(), &edges, spec.opts).res)?;
        let wf = write_slpp(gfull, &SinkSpec { enospc_after: Some(budget as u64), ..spec.sink.clone() }, spec.compression);
        note_write(ctx, &wf);
        if wf.failed {
            if let Res::Ok(()) = wf.res {
                return Err(Violation::new(P, "swallowed-io-error", "peppi::write", format!("the sink failed after {} bytes but peppi::write returned Ok: what it left behind is not a tar archive", wf.data.len())));
            }
            ctx.probe("sink full: writer reported the error");
        }
    }
    let wa = write_slpp(ga, &spec.sink, spec.compression);
    note_write(ctx, &wa);
    if is_o7(m.v, &wa.res) {
        ctx.skip("versions 3.0-3.6 cannot be written as .slpp (known finding of C02)");
        return Ok(());
    }
    expect_ok(P, "peppi::write", wa.res)?;
    // written twice -> identical bytes (the second time through an unfragmented sink)
    let wb = write_slpp(gb, &SinkSpec::default(), spec.compression);
    expect_ok(P, "peppi::write(2)", wb.res)?;
    if let Some(off) = first_diff(&wa.data, &wb.data) {
        return Err(Violation::new(P, "nondeterministic-output", "peppi::write", format!("two writes of the same game differ at offset {} (lengths {} vs {})", off, wa.data.len(), wb.data.len())));
    }
    ctx.check();
    let z = &wa.data;
    if z.len() < 10 || &z[..10] != b"peppi.json" {
        return Err(Violation::new(P, "layout", "signature", "the archive does not start with the bytes `peppi.json`"));
    }
    let ar = Archive::open(z).map_err(|e| Violation::new(P, "layout", "tar", e))?;
    if !ar.terminated {
        return Err(Violation::new(P, "layout", "tar", "archive is not terminated by two zero blocks"));
    }
    let names = ar.names();
    let mut expect: Vec<&str> = vec!["peppi.json", "metadata.json", "start.json", "start.raw"];
    if has_end {
        expect.extend(["end.json", "end.raw"]);
    }
    if has_gecko {
        expect.push("gecko_codes.raw");
    }
    // frames.arrow: required (and last) when the game has frames; the statement does not forbid an empty one otherwise
    let mut names_cmp: Vec<&str> = names.iter().map(|s| s.as_str()).collect();
    if !has_frames && names_cmp.last() == Some(&"frames.arrow") {
        names_cmp.pop();
        ctx.probe("frames.arrow present for a game without frames");
    } else if has_frames {
        expect.push("frames.arrow");
    }
    if names_cmp != expect {
        return Err(Violation::new(P, "layout", "entry-order", format!("entries {:?}, expected {:?}", names, expect)));
    }
    ctx.check();
    // what the reader reconstructs
    let mut r = read_slpp(z, &spec.stream2, false);
    note_read(ctx, &mut r);
    let g = expect_ok(P, "peppi::read", r.res)?;
    let chk = |name: &str, want: Vec<u8>| -> Result<(), Violation> {
        let got = ar.get(name).ok_or_else(|| Violation::new(P, "layout", name.to_string(), "entry missing"))?;
        if name.ends_with(".json") {
            serde_json::from_slice::<serde_json::Value>(got).map_err(|e| Violation::new(P, "json-mismatch", name.to_string(), format!("not valid JSON: {}", e)))?;
        }
        if got != &want[..] {
            return Err(Violation::new(
                P,
                "json-mismatch",
                name.to_string(),
                format!("entry {} but the reader's reconstruction renders as {}", crate::report::short(&String::from_utf8_lossy(got), 120), crate::report::short(&String::from_utf8_lossy(&want), 120)),
            ));
        }
        Ok(())
    };
    let pj = peppi::io::peppi::Peppi { version: peppi::io::peppi::CURRENT_VERSION, slp_hash: g.hash.clone(), quirks: g.quirks };
    chk("peppi.json", serde_json::to_vec(&pj).unwrap())?;
    chk("metadata.json", serde_json::to_vec(&g.metadata).unwrap())?;
    chk("start.json", serde_json::to_vec(&g.start).unwrap())?;
    chk("start.raw", g.start.bytes.0.clone())?;
    if let Some(e) = &g.end {
        chk("end.json", serde_json::to_vec(e).unwrap())?;
        chk("end.raw", e.bytes.0.clone())?;
    }
    if let Some(gc) = &g.gecko_codes {
        let mut b = gc.actual_size.to_le_bytes().to_vec();
        b.extend_from_slice(&gc.bytes);
        chk("gecko_codes.raw", b)?;
    }
    ctx.checks(6);
    // mutated archive: unknown entries and/or a rewritten format version
    if !spec.archive_edits.is_empty() || spec.archive_version.is_some() {
        let mutated = rebuild(&ar, &spec.archive_edits, spec.archive_version).map_err(|e| Violation::new(P, "harness-error", "rebuild", e))?;
        ctx.fault("unknown_archive_entry", spec.archive_edits.len() as u64);
        ctx.probe_if(spec.archive_edits.iter().any(|e| e.name.len() > 100), "unknown entry with a long (GNU) name");
        ctx.probe_if(spec.archive_edits.iter().any(|e| e.typeflag != 0), "unknown entry that is not a regular file");
        let too_old = spec.archive_version.map_or(false, |v| v < [2, 0, 0]);
        // the skip-frames option must not change what is accepted
        match (read_slpp(&mutated, &StreamSpec::default(), true).res, too_old) {
            (Res::Ok(_), true) => return Err(Violation::new(P, "unexpected-ok", "peppi::read(version, skip_frames)", format!("format version {:?} is below 2.0.0 but the archive was accepted with skip_frames", spec.archive_version.unwrap()))),
            (Res::Err(e, _), false) => return Err(Violation::new(P, "unexpected-err", "peppi::read(mutated, skip_frames)", crate::report::short(&e, 120))),
            (Res::Caught(c), _) => return Err(caught_violation(P, "peppi::read(mutated, skip_frames)", &c)),
            _ => {}
        }
        let r2 = read_slpp(&mutated, &StreamSpec::default(), false);
        ctx.probe_if(too_old, "format version below the minimum");
        ctx.probe_if(spec.archive_version.map_or(false, |v| v >= [2, 0, 0]), "format version at or above the minimum");
        match (r2.res, too_old) {
            (Res::Err(..), true) => {}
            (Res::Ok(_), true) => return Err(Violation::new(P, "unexpected-ok", "peppi::read(version)", format!("format version {:?} is below 2.0.0 but the archive was accepted", spec.archive_version.unwrap()))),
            (Res::Ok(g2), false) => {
                cmp_games(&g2, &g, CmpMask::ALL).map_err(|(s, msg)| Violation::new(P, "field-mismatch", format!("with-unknown-entries {}", s), msg))?;
            }
            (Res::Err(e, _), false) => return Err(Violation::new(P, "unexpected-err", "peppi::read(mutated)", format!("{} (edits {:?}, version {:?})", crate::report::short(&e, 120), spec.archive_edits.iter().map(|e| (e.before, e.name.len(), e.size)).collect::<Vec<_>>(), spec.archive_version))),
            (Res::Caught(c), _) => return Err(caught_violation(P, "peppi::read(mutated)", &c)),
        }
        ctx.check();
    }
    let _ = KNOWN_NAMES;
    ctx.rep.nontrivial = true;
    Ok(())
}

//! C11 — the replay hash is the XXH3-64 of exactly the file's bytes, however they arrive (S5).

use super::common::*;
use crate::gen::{self, GenCfg};
use crate::pipeline::*;
use crate::prng::Rng;
use crate::recorder;
use crate::report::{Ctx, Violation};
use crate::spec::*;
use crate::Tier;

const P: &str = "C11";

pub fn gen(seed: u64, tier: Tier) -> ScenarioSpec {
    let mut rng = Rng::new(seed);
    let cfg = GenCfg { allow_large: tier == Tier::Thorough && rng.chance(1, 4), ..Default::default() };
    // rare: a replay beyond 2^31 bytes read from a sparse stream (see C10)
    let sparse = rng.chance(1, if tier == Tier::Thorough { 6000 } else { 2500 });
    let cfg = if sparse { GenCfg { size: Some(gen::SizeClass::Tiny), ..Default::default() } } else { cfg };
    let mut rec = gen::gen_recorder(&mut rng, &cfg);
    let sparse_knobs: Vec<(&str, i64)> = if sparse { gen_sparse(&mut rng, &mut rec) } else { vec![] };
    if !sparse {
        match rng.below(40) {
            // long runs of one-byte reads: a deep chain of maps with one-byte keys, or hundreds of zero-size events in a row
            0 => {
                let d = 55 + rng.below(70) as u32;
                rec.metadata = Some(gen::gen_chain(&mut rng, d));
            }
            1 => {
                let code = 0x60 + rng.below(0x30) as u8;
                let at = rng.below(super::c17::events_hint(&rec) as u64 + 1) as u32;
                let n = 256 + rng.usize_below(400);
                rec.extras.unknown = vec![UnknownEv { code, size: 0, after: vec![at; n], pseed: rng.next_u64(), split: false }];
            }
            _ => {}
        }
    }
    let mut spec = gen::base_spec(P, "S5", seed, rec);
    for (k, v) in sparse_knobs {
        spec.knobs.insert(k.into(), v);
    }
    spec.knobs.insert("schedules".into(), if tier == Tier::Thorough { 12 } else { 6 });
    spec.knobs.insert("sched_seed".into(), (rng.next_u64() >> 1) as i64);
    spec.compression = *rng.pick(&[Compression::None, Compression::Lz4, Compression::Zstd]);
    spec.knobs.insert("prelude".into(), gen_prelude(&mut rng, &[1, 4, 5], 3));
    spec
}

pub fn expected_hash(bytes: &[u8]) -> String {
    format!("xxh3:{:016x}", xxhash_rust::xxh3::xxh3_64(bytes))
}

/// The > 2 GiB leg: the hash of `head ++ hole ++ tail`, computed by the harness in pieces, against the reader's.
fn sparse_leg(spec: &ScenarioSpec, m: &recorder::Model, ctx: &mut Ctx) -> Result<(), Violation> {
    let Some(sp) = sparse_setup(spec, m) else {
        ctx.skip("sparse leg without its payload-table entry or without a place for the hole");
        return Ok(());
    };
    let SparseFile { head, at, count, code, chunk, .. } = sp;
    let tail = &m.bytes[at..];
    let mut h = xxhash_rust::xxh3::Xxh3::new();
    h.update(&head);
    let mut ev = vec![0u8; 65536];
    ev[0] = code;
    for _ in 0..count {
        h.update(&ev);
    }
    h.update(tail);
    let want = format!("xxh3:{:016x}", h.digest());
    ctx.probe(if count >= 32768 { "hash of a replay longer than 2^31 bytes" } else { "hash of a replay just below 2^31 bytes" });
    ctx.fault("sparse_stream_bytes_gib", (count * 65536) >> 30);
    for skip in [false, true] {
        if skip && m.end.is_none() {
            continue;
        }
        let site = format!("slippi::read(skip={},hash=true, > 2 GiB)", skip);
        let (r, _, _) = read_slp_sparse(&head, tail, count, code, chunk, OptsSpec { skip_frames: skip, compute_hash: true });
        let g = match r {
            Res::Ok(g) => g,
            Res::Err(e, _) => return Err(Violation::new(P, "unexpected-err", site, crate::report::short(&e, 200))),
            Res::Caught(c) => return Err(caught_violation(P, &site, &c)),
        };
        if g.hash.as_deref() != Some(want.as_str()) {
            return Err(Violation::new(P, "hash-mismatch", site, format!("got {:?}, the stream's bytes hash to {}", g.hash, want)));
        }
        ctx.check();
    }
    ctx.rep.nontrivial = true;
    Ok(())
}

pub fn run(spec: &ScenarioSpec, ctx: &mut Ctx) -> Result<(), Violation> {
    let m = recorder::build(&spec.recorder);
    ctx.rep.sim_time_ns += m.sim_time_ns();
    shape_of_model(ctx, &m, spec);
    prelude(spec.knob("prelude"), spec.seed, &m, ctx);
    if spec.knob("sparse_count") > 0 {
        return sparse_leg(spec, &m, ctx);
    }
    let want = expected_hash(&m.bytes);
    let edges = m.edges();
    let n = spec.knob("schedules").max(1) as usize;
    let mut rng = Rng::new(spec.knob("sched_seed") as u64);
    let finished = m.end.is_some();
    let mut deviated = false;
    let mut kept: Option<peppi::game::immutable::Game> = None;
    for k in 0..n {
        // the first schedules are fixed shapes, the rest drawn
        let mut ss = match k {
            0 => StreamSpec { mode: Frag::Whole, ..Default::default() },
            1 => StreamSpec { mode: if m.bytes.len() < 40_000 { Frag::One } else { Frag::Fixed(13) }, ..Default::default() },
            2 => StreamSpec { mode: Frag::Two(rng.below(m.bytes.len() as u64) as u32), ..Default::default() },
            _ => gen::gen_stream(&mut rng, m.bytes.len(), true),
        };
        if k == 3 {
            ss.eintr_calls = gen::gen_eintr(&mut rng, 60);
        }
        if k >= 2 {
            gen::gen_embedding(&mut rng, &mut ss);
            ctx.probe_if(ss.prefix > 0, "replay does not start at stream offset 0");
            ctx.probe_if(ss.suffix > 0, "unrelated bytes follow the replay");
        }
        let skip = finished && rng.chance(1, 2);
        let hash = k < 3 || rng.chance(4, 5);
        let opts = OptsSpec { skip_frames: skip, compute_hash: hash };
        ctx.shape("sched", frag_class(&ss.mode) * 4 + skip as u64 * 2 + hash as u64);
        let mut ro = read_slp(&m.bytes, &ss, &edges, opts);
        note_read(ctx, &mut ro);
        deviated |= ro.stats.short_reads + ro.stats.eintr > 0;
        let site = format!("slippi::read(skip={},hash={})", skip, hash);
        let g = match ro.res {
            Res::Ok(g) => g,
            Res::Err(e, kind) => {
                if ro.interrupted_returned && kind == Some(std::io::ErrorKind::Interrupted) {
                    ctx.skip("read surfaced Interrupted (allowed)");
                    continue;
                }
                return Err(Violation::new(P, "unexpected-err", site, crate::report::short(&e, 200)));
            }
            Res::Caught(c) => return Err(caught_violation(P, &site, &c)),
        };
        if hash {
            match &g.hash {
                Some(h) if *h == want => {}
                other => {
                    return Err(Violation::new(P, "hash-mismatch", site, format!("reported {:?}, XXH3-64 of the {} file bytes is {} (schedule {:?})", other, m.bytes.len(), want, ss.mode)))
                }
            }
            if ro.position != m.bytes.len() {
                return Err(Violation::new(P, "hash-mismatch", format!("{} position", site), format!("reader stopped at byte {} of {}", ro.position, m.bytes.len())));
            }
            ctx.probe_if(skip, "hash with skip-frames");
            ctx.probe_if(ro.stats.eintr > 0, "hash with Interrupted reads");
        } else if g.hash.is_some() {
            return Err(Violation::new(P, "hash-mismatch", site, format!("hash {:?} reported although not requested", g.hash)));
        }
        ctx.check();
        if hash && !skip && kept.is_none() {
            kept = Some(g);
        }
    }
    // a stored hash is carried unchanged through .slpp
    if let Some(g) = kept {
        let wz = write_slpp(g, &SinkSpec::default(), spec.compression);
        if is_o7(m.v, &wz.res) {
            ctx.skip("archive leg: versions 3.0-3.6 cannot be written as .slpp (known finding of C02)");
        } else if let Res::Ok(()) = wz.res {
            for skip in [false, true] {
                match read_slpp(&wz.data, &StreamSpec::default(), skip).res {
                    Res::Ok(g2) => {
                        if g2.hash.as_deref() != Some(want.as_str()) {
                            return Err(Violation::new(P, "hash-mismatch", if skip { "peppi::read(skip_frames)" } else { "peppi::read" }, format!("hash after .slpp {:?}, stored {}", g2.hash, want)));
                        }
                        ctx.check();
                    }
                    _ => ctx.skip("archive could not be read back (owned by C02)"),
                }
            }
        } else {
            ctx.skip("archive could not be written (owned by C02)");
        }
    }
    ctx.rep.nontrivial = deviated;
    Ok(())
}

//! C09 — writers refuse games newer than the supported version (terminal step of S1).

use super::common::*;
use crate::gen::{self, GenCfg, SizeClass};
use crate::pipeline::*;
use crate::prng::Rng;
use crate::recorder;
use crate::report::{Ctx, Violation};
use crate::spec::*;
use crate::Tier;

const P: &str = "C09";
const MAX: (u8, u8, u8) = (3, 16, 0);

pub fn gen(seed: u64, _tier: Tier) -> ScenarioSpec {
    let mut rng = Rng::new(seed);
    let version: [u8; 3] = match rng.below(16) {
        0 => [3, 16, 0],
        1 => [3, 16, 1],
        2 => [3, 16, 255],
        3 => [3, 17, 0],
        4 => [3, 255, 255],
        5 => [4, 0, 0],
        6 => [255, 255, 255],
        7 => [2, 255, 255],
        8 => [0, 1, 0],
        9 => [3, 15, 255],
        10 => [4, 0, rng.below(256) as u8],
        11..=12 => [3, rng.range(10, 30) as u8, rng.below(3) as u8],
        13 => [3, rng.range(14, 16) as u8, 0],
        14 => [3, rng.range(0, 2) as u8, rng.below(3) as u8],
        _ => [rng.below(256) as u8, rng.below(256) as u8, rng.below(256) as u8],
    };
    let version = if version[0] == 0 && version[1] == 0 { [0, 1, version[2]] } else { version };
    let cfg = GenCfg { size: Some(SizeClass::Tiny), max_version: None, force_version: Some(version), ..Default::default() };
    let mut rec = gen::gen_recorder(&mut rng, &cfg);
    // the guard is about the version, not about block lengths: a game whose Game Start / Game End
    // blocks are longer than the version prescribes (kept verbatim by the reader) must be treated alike
    // (only where the extra bytes cannot be mistaken for a later layout: the blocks of 3.14+ / 3.13+ are already the longest known ones)
    let vv = (rec.version[0], rec.version[1]);
    if rng.chance(1, 3) && crate::layout::gte(vv, (3, 14)) {
        rec.extras.trailing.insert(crate::layout::CODE_START, 1 + rng.below(64) as u16);
        if rng.chance(1, 2) {
            rec.extras.trailing.insert(crate::layout::CODE_END, 1 + rng.below(8) as u16);
        }
        rec.extras.trailing_pseed = rng.next_u64();
    }
    // "every game": a Gecko list in a 3.0-3.2 game is outside the recorder envelope but is a game the
    // reader produces and both writers must judge by its version alone
    if crate::layout::gte(vv, (3, 0)) && !crate::layout::gte(vv, (3, 3)) && rng.chance(1, 3) {
        rec.force_gecko = true;
        rec.gecko = Some(GeckoSpec { len: 1 + rng.below(1500) as u32, pseed: rng.next_u64() });
    }
    // the guard must not depend on there being anybody in the game
    if rng.chance(1, 40) {
        rec.ports.clear();
        if !crate::layout::gte(vv, (2, 2)) {
            rec.frames.clear();
        }
        for f in rec.frames.iter_mut() {
            f.present = 0;
        }
    }
    let mut spec = gen::base_spec(P, "S1", seed, rec);
    spec.compression = *rng.pick(&[Compression::None, Compression::Lz4, Compression::Zstd]);
    spec.sink = gen::gen_sink(&mut rng, false);
    // the game may come from a hashing read (it then carries a hash string); the guard must not care
    spec.opts.compute_hash = rng.chance(1, 2);
    spec.knobs.insert("prelude".into(), gen_prelude(&mut rng, &[1, 2, 4, 5], 6));
    spec
}

pub fn run(spec: &ScenarioSpec, ctx: &mut Ctx) -> Result<(), Violation> {
    let m = recorder::build(&spec.recorder);
    shape_of_model(ctx, &m, spec);
    let ver = (m.version[0], m.version[1], m.version[2]);
    let newer = ver > MAX;
    ctx.shape("vtriple", (ver.0 as u64) << 16 | (ver.1 as u64) << 8 | ver.2 as u64);
    ctx.probe(if newer { "version above the ceiling" } else { "version at or below the ceiling" });
    ctx.probe_if(ver == (3, 16, 0), "exactly 3.16.0");
    ctx.probe_if(ver.0 == 3 && ver.1 == 16 && ver.2 > 0, "3.16.patch>0");
    ctx.probe_if(ver.0 > 3, "other major");
    ctx.probe_if(spec.recorder.force_gecko && m.gecko.is_some(), "Gecko list in a 3.0-3.2 game");
    ctx.probe_if(!spec.recorder.extras.trailing.is_empty() && !newer, "longer Game Start/End block at or below the ceiling");
    ctx.shape("trailing", spec.recorder.extras.trailing.len() as u64);
    prelude(spec.knob("prelude"), spec.seed, &m, ctx);
    ctx.shape("hash", spec.opts.compute_hash as u64);
    let Some(game) = s1_read(P, spec, &m, ctx, true)? else { return Ok(()) };
    let w1 = write_slp(&game, &spec.sink);
    note_write(ctx, &w1);
    match (&w1.res, newer) {
        (Res::Err(..), true) => {}
        (Res::Ok(()), false) => {}
        (Res::Ok(()), true) => return Err(Violation::new(P, "unexpected-ok", "slippi::write", format!("version {}.{}.{} exceeds 3.16.0 but the .slp writer did not refuse", ver.0, ver.1, ver.2))),
        (Res::Err(e, _), false) => return Err(Violation::new(P, "unexpected-err", "slippi::write", format!("version {}.{}.{} refused: {}", ver.0, ver.1, ver.2, crate::report::short(e, 120)))),
        (Res::Caught(c), _) => return Err(caught_violation(P, "slippi::write", c)),
    }
    ctx.check();
    // the same writers under their module paths (`slippi::ser::write`, `peppi::ser::write` are public too):
    // an application may import either name
    if newer {
        let mut sink = crate::simio::SimSink::new(&SinkSpec::default());
        match crate::report::guarded(|| peppi::io::slippi::ser::write(&mut sink, &game)) {
            Ok(Err(_)) => {}
            Ok(Ok(())) => return Err(Violation::new(P, "unexpected-ok", "slippi::ser::write", format!("version {}.{}.{} exceeds 3.16.0 but the .slp writer, called as slippi::ser::write, did not refuse", ver.0, ver.1, ver.2))),
            Err(c) => return Err(caught_violation(P, "slippi::ser::write", &c)),
        }
        let g2 = expect_ok(P, "slippi::read(2)", read_slp_noopts(&m.bytes, &StreamSpec::default(), &[]).res)?;
        let mut sink = crate::simio::SimSink::new(&SinkSpec::default());
        match crate::report::guarded(|| peppi::io::peppi::ser::write(&mut sink, g2, None)) {
            Ok(Err(_)) => {}
            Ok(Ok(())) => return Err(Violation::new(P, "unexpected-ok", "peppi::ser::write", format!("version {}.{}.{} exceeds 3.16.0 but the .slpp writer, called as peppi::ser::write with no options, did not refuse", ver.0, ver.1, ver.2))),
            Err(c) => return Err(caught_violation(P, "peppi::ser::write", &c)),
        }
        ctx.checks(2);
    }
    let w2 = write_slpp(game, &spec.sink, spec.compression);
    note_write(ctx, &w2);
    match (&w2.res, newer) {
        (Res::Err(..), true) => {}
        (Res::Ok(()), false) => {}
        (Res::Ok(()), true) => return Err(Violation::new(P, "unexpected-ok", "peppi::write", format!("version {}.{}.{} exceeds 3.16.0 but the .slpp writer did not refuse", ver.0, ver.1, ver.2))),
        (Res::Err(e, _), false) => {
            if e.contains("unsupported version") {
                return Err(Violation::new(P, "unexpected-err", "peppi::write", format!("version {}.{}.{} refused on version grounds: {}", ver.0, ver.1, ver.2, crate::report::short(e, 120))));
            }
            ctx.skip("peppi::write failed for a reason other than the version (owned by C02)");
        }
        (Res::Caught(c), true) => return Err(caught_violation(P, "peppi::write", c)),
        (Res::Caught(_), false) => ctx.skip("peppi::write panicked for a reason other than the version (owned by C02)"),
    }
    ctx.check();
    ctx.rep.nontrivial = true;
    Ok(())
}

//! C10 — skip-frames parsing returns the same start, end and metadata (S1/S5).

use super::common::*;
use crate::gen::{self, GenCfg};
use crate::pipeline::*;
use crate::prng::Rng;
use crate::recorder;
use crate::report::{Ctx, Violation};
use crate::spec::*;
use crate::Tier;
use peppi::game::immutable::Game;

const P: &str = "C10";

pub fn gen(seed: u64, tier: Tier) -> ScenarioSpec {
    let mut rng = Rng::new(seed);
    let cfg = GenCfg { allow_large: tier == Tier::Thorough, force_end: true, ..Default::default() };
    // rare: a replay beyond 2^31 (or close to 2^32) bytes — the raw length is an unsigned 32-bit number.
    // Its bulk is a run of 65535-byte events of a code the library does not know, generated on the fly.
    let sparse = rng.chance(1, if tier == Tier::Thorough { 6000 } else { 2500 });
    let cfg = if sparse { GenCfg { size: Some(gen::SizeClass::Tiny), force_end: true, ..Default::default() } } else { cfg };
    let mut rec = gen::gen_recorder(&mut rng, &cfg);
    let sparse_knobs: Vec<(&str, i64)> = if sparse { gen_sparse(&mut rng, &mut rec) } else { vec![] };
    let len = gen::approx_len(&rec);
    let mut spec = gen::base_spec(P, "S5", seed, rec);
    spec.stream = gen::gen_stream(&mut rng, len, true);
    gen::gen_embedding(&mut rng, &mut spec.stream);
    spec.stream2 = gen::gen_stream(&mut rng, len, false);
    spec.sink = gen::gen_sink(&mut rng, false);
    spec.opts = OptsSpec { skip_frames: true, compute_hash: rng.chance(1, 2) };
    spec.compression = *rng.pick(&[Compression::None, Compression::Lz4, Compression::Zstd]);
    spec.knobs.insert("prelude".into(), gen_prelude(&mut rng, &[1, 3, 4, 5], 4));
    for (k, v) in sparse_knobs {
        spec.knobs.insert(k.into(), v);
    }
    spec
}

/// The > 2 GiB leg: full and skip-frames reads of `head ++ hole ++ tail` against the plain twin.
fn sparse_leg(spec: &ScenarioSpec, m: &recorder::Model, ctx: &mut Ctx) -> Result<(), Violation> {
    let Some(sp) = sparse_setup(spec, m) else {
        // (a spec the generator never produces; the minimiser may try it)
        ctx.skip("sparse leg without its payload-table entry or without a place for the hole");
        return Ok(());
    };
    let SparseFile { head, at, count, code, chunk, old_raw } = sp;
    let tail = &m.bytes[at..];
    ctx.probe(if old_raw + count * 65536 >= (1u64 << 32) - 70_000 { "replay within 70 000 bytes of 2^32" } else if count >= 32768 { "replay longer than 2^31 bytes" } else { "replay just below 2^31 bytes" });
    ctx.fault("sparse_stream_bytes_gib", (count * 65536) >> 30);
    let plain = expect_ok(P, "slippi::read(plain twin)", read_slp_noopts(&m.bytes, &StreamSpec::default(), &[]).res)?;
    let (rf, _, _) = read_slp_sparse(&head, tail, count, code, chunk, OptsSpec { skip_frames: false, compute_hash: false });
    let full = expect_ok(P, "slippi::read(full, > 2 GiB)", rf)?;
    same_header(&full, &plain).map_err(|(s, msg)| Violation::new(P, "field-mismatch", format!("huge-full-vs-plain {}", s), msg))?;
    if full.frames.len() != plain.frames.len() {
        return Err(Violation::new(P, "row-count", "frames.len", format!("{} rows with the run of unknown events, {} without", full.frames.len(), plain.frames.len())));
    }
    ctx.checks(2);
    let (rs, _, seeks) = read_slp_sparse(&head, tail, count, code, chunk, spec.opts);
    ctx.probe_if(seeks > 0, "seek issued");
    let skip = match rs {
        Res::Ok(g) => g,
        Res::Err(e, _) => return Err(Violation::new(P, "unexpected-err", "slippi::read(skip, > 2 GiB)", crate::report::short(&e, 200))),
        Res::Caught(c) => return Err(caught_violation(P, "slippi::read(skip, > 2 GiB)", &c)),
    };
    same_header(&skip, &full).map_err(|(s, msg)| Violation::new(P, "field-mismatch", format!("huge-skip-vs-full {}", s), msg))?;
    check_empty_frames(&skip, m).map_err(|(s, msg)| Violation::new(P, "row-count", s, msg))?;
    ctx.checks(2);
    ctx.rep.nontrivial = true;
    Ok(())
}

/// start / end / metadata equality (bitwise for raw blocks, order-sensitive for metadata)
fn same_header(a: &Game, b: &Game) -> Result<(), (String, String)> {
    if a.start.bytes.0 != b.start.bytes.0 {
        return Err(("start.bytes".into(), "raw Game Start differs".into()));
    }
    if json_of(&a.start) != json_of(&b.start) {
        return Err(("start".into(), "Game Start fields differ".into()));
    }
    match (&a.end, &b.end) {
        (None, None) => {}
        (Some(x), Some(y)) => {
            if x.bytes.0 != y.bytes.0 || json_of(x) != json_of(y) {
                return Err(("end".into(), format!("{} vs {}", json_of(x), json_of(y))));
            }
        }
        (x, y) => return Err(("end".into(), format!("end present {} vs {}", x.is_some(), y.is_some()))),
    }
    if json_of(&a.metadata) != json_of(&b.metadata) {
        return Err(("metadata".into(), format!("{} vs {}", crate::report::short(&json_of(&a.metadata), 120), crate::report::short(&json_of(&b.metadata), 120))));
    }
    Ok(())
}

fn check_empty_frames(g: &Game, m: &recorder::Model) -> Result<(), (String, String)> {
    if g.frames.len() != 0 {
        return Err(("frames.len".into(), format!("{} rows in a skip-frames game", g.frames.len())));
    }
    if g.frames.ports.len() != m.ports.len() {
        return Err(("frames.ports".into(), format!("{} port column groups for {} players", g.frames.ports.len(), m.ports.len())));
    }
    for (pd, p) in g.frames.ports.iter().zip(m.ports.iter()) {
        if pd.port as u8 != p.port || pd.follower.is_some() != p.ics {
            return Err(("frames.ports".into(), format!("port {} follower {} vs model port {} ICs {}", pd.port as u8, pd.follower.is_some(), p.port, p.ics)));
        }
    }
    Ok(())
}

pub fn run(spec: &ScenarioSpec, ctx: &mut Ctx) -> Result<(), Violation> {
    let m = recorder::build(&spec.recorder);
    ctx.rep.sim_time_ns += m.sim_time_ns();
    shape_of_model(ctx, &m, spec);
    ctx.shape("hash", spec.opts.compute_hash as u64);
    ctx.shape("comp", spec.compression as u64);
    ctx.probe_if(spec.stream.prefix > 0, "replay does not start at stream offset 0");
    ctx.probe_if(spec.stream.suffix > 0, "unrelated bytes follow the replay");
    ctx.shape("embed", (spec.stream.prefix > 0) as u64 | ((spec.stream.suffix > 0) as u64) << 1);
    ctx.probe(if spec.opts.compute_hash { "skip with hashing (copy path)" } else { "skip without hashing (seek path)" });
    let edges = m.edges();
    prelude(spec.knob("prelude"), spec.seed, &m, ctx);
    if spec.knob("sparse_count") > 0 {
        return sparse_leg(spec, &m, ctx);
    }
    // full read, plain stream
    let full = expect_ok(P, "slippi::read(full)", read_slp_noopts(&m.bytes, &StreamSpec::default(), &edges).res)?;
    // skip read under the scheduled stream
    let mut ro = read_slp(&m.bytes, &spec.stream, &edges, spec.opts);
    note_read(ctx, &mut ro);
    ctx.probe_if(ro.stats.seeks > 0, "seek issued");
    let skip = match ro.res {
        Res::Ok(g) => g,
        Res::Err(e, k) => {
            if ro.interrupted_returned && k == Some(std::io::ErrorKind::Interrupted) {
                ctx.skip("read surfaced Interrupted (allowed)");
                return Ok(());
            }
            return Err(Violation::new(P, "unexpected-err", "slippi::read(skip)", crate::report::short(&e, 200)));
        }
        Res::Caught(c) => return Err(caught_violation(P, "slippi::read(skip)", &c)),
    };
    same_header(&skip, &full).map_err(|(s, msg)| Violation::new(P, "field-mismatch", format!("skip-vs-full {}", s), msg))?;
    check_empty_frames(&skip, &m).map_err(|(s, msg)| Violation::new(P, "row-count", s, msg))?;
    ctx.checks(2);
    // the skipped game can be written out and re-read
    let wo = write_slp(&skip, &spec.sink);
    note_write(ctx, &wo);
    expect_ok(P, "slippi::write(skip game)", wo.res)?;
    let re = expect_ok(P, "slippi::read(written skip game)", read_slp_noopts(&wo.data, &StreamSpec::default(), &[]).res)?;
    same_header(&re, &full).map_err(|(s, msg)| Violation::new(P, "field-mismatch", format!("rewritten-skip-vs-full {}", s), msg))?;
    if re.frames.len() != 0 {
        return Err(Violation::new(P, "row-count", "frames.len", "re-read skip game has frames"));
    }
    ctx.checks(2);
    // .slpp: full game -> archive -> skip read
    let wz = write_slpp(expect_ok(P, "slippi::read(full,2)", read_slp_noopts(&m.bytes, &StreamSpec::default(), &edges).res)?, &spec.sink, spec.compression);
    note_write(ctx, &wz);
    if is_o7(m.v, &wz.res) {
        ctx.skip("archive leg: versions 3.0-3.6 cannot be written as .slpp (known finding of C02)");
    } else {
        expect_ok(P, "peppi::write(full)", wz.res)?;
        let mut r2 = read_slpp(&wz.data, &spec.stream2, true);
        note_read(ctx, &mut r2);
        let zskip = expect_ok(P, "peppi::read(skip)", r2.res)?;
        same_header(&zskip, &full).map_err(|(s, msg)| Violation::new(P, "field-mismatch", format!("slpp-skip-vs-full {}", s), msg))?;
        check_empty_frames(&zskip, &m).map_err(|(s, msg)| Violation::new(P, "row-count", format!("slpp-skip {}", s), msg))?;
        ctx.checks(2);
        // the skipped game written as .slpp and read back
        let wz2 = write_slpp(zskip, &SinkSpec::default(), spec.compression);
        if is_o7(m.v, &wz2.res) {
            ctx.skip("archive leg: versions 3.0-3.6 cannot be written as .slpp (known finding of C02)");
        } else {
            expect_ok(P, "peppi::write(skip game)", wz2.res)?;
            for skip2 in [false, true] {
                let back = expect_ok(P, if skip2 { "peppi::read(skip)(written skip game)" } else { "peppi::read(written skip game)" }, read_slpp(&wz2.data, &StreamSpec::default(), skip2).res)?;
                same_header(&back, &full).map_err(|(s, msg)| Violation::new(P, "field-mismatch", format!("slpp-rewritten-skip-vs-full {}", s), msg))?;
                if back.frames.len() != 0 {
                    return Err(Violation::new(P, "row-count", "frames.len", "re-read .slpp skip game has frames"));
                }
                ctx.check();
            }
        }
    }
    ctx.rep.nontrivial = !m.occs.is_empty();
    Ok(())
}

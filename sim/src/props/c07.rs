//! C07 — a replay file cut short at any byte never yields a partial game, panic or hang (family S3).

use super::common::*;
use crate::gen::{self, GenCfg, SizeClass};
use crate::pipeline::*;
use crate::prng::Rng;
use crate::recorder;
use crate::report::{Ctx, Violation};
use crate::spec::*;
use crate::Tier;

const P: &str = "C07";

pub fn gen(seed: u64, tier: Tier) -> ScenarioSpec {
    let mut rng = Rng::new(seed);
    // rare: a game of more than 65 536 frames (an archive writer or reader may treat such a game in pieces);
    // swept only around the places where a piece could end
    let huge = rng.chance(1, if tier == Tier::Thorough { 150 } else { 60 });
    let cfg = GenCfg {
        force_end: true,
        size: Some(match if huge { 99 } else { rng.below(10) } {
            99 => SizeClass::Huge,
            0..=3 => SizeClass::Tiny,
            4..=8 => SizeClass::Small,
            _ => {
                if tier == Tier::Thorough {
                    SizeClass::Medium
                } else {
                    SizeClass::Small
                }
            }
        }),
        ..Default::default()
    };
    let mut rec = gen::gen_recorder(&mut rng, &cfg);
    if huge {
        rec.gecko = None;
        if rec.ports.len() > 2 {
            rec.ports.truncate(2);
        }
        for f in rec.frames.iter_mut() {
            f.items = 0;
        }
    }
    if let Some(g) = rec.gecko.as_mut() {
        // keep files small enough for complete sweeps most of the time
        if g.len > 3000 && rng.chance(3, 4) {
            g.len = 1 + rng.below(1500) as u32;
        }
    }
    if !huge && rng.chance(1, 5) {
        // declared-but-unknown events are part of a well-formed file; some collide with the markers after the raw element
        rec.extras.unknown = super::c17::gen_unknown(&mut rng, super::c17::events_hint(&rec), 2);
        for u in rec.extras.unknown.iter_mut() {
            u.after.truncate(4);
            if rng.chance(1, 2) {
                u.after.push(0);
                u.after.push(1);
            }
        }
    }
    let mut spec = gen::base_spec(P, "S3", seed, rec);
    spec.compression = *rng.pick(&[Compression::None, Compression::Lz4, Compression::Zstd]);
    spec.opts.compute_hash = rng.chance(1, 4);
    spec.stream = match rng.below(4) {
        0 => gen::gen_stream(&mut rng, 4000, false),
        _ => StreamSpec::default(),
    };
    spec.stream.suffix = 0;
    spec.knobs.insert("slp_full_limit".into(), if tier == Tier::Thorough { 40_000 } else { 3_000 });
    spec.knobs.insert("slpp_full_limit".into(), if tier == Tier::Thorough { 80_000 } else { 0 });
    spec.knobs.insert("slpp_samples".into(), if tier == Tier::Thorough { 4000 } else { 300 });
    spec.knobs.insert("slp_samples".into(), if tier == Tier::Thorough { 3000 } else { 300 });
    spec.knobs.insert("cut_seed".into(), (rng.next_u64() >> 1) as i64);
    if huge {
        spec.knobs.insert("huge".into(), 1);
        spec.knobs.insert("slp_full_limit".into(), 0);
        spec.knobs.insert("slpp_full_limit".into(), 0);
        spec.knobs.insert("slp_samples".into(), 24);
        spec.knobs.insert("slpp_samples".into(), 40);
        spec.stream = StreamSpec::default();
    }
    spec
}

fn cut_points(len: usize, full_limit: usize, samples: usize, anchors: &[usize], rng: &mut Rng, tail: usize) -> (Vec<usize>, bool) {
    if len <= full_limit {
        return ((0..len).collect(), true);
    }
    let mut v: Vec<usize> = vec![];
    for &a in anchors {
        for d in [-2i64, -1, 0, 1, 2] {
            let x = a as i64 + d;
            if x >= 0 && (x as usize) < len {
                v.push(x as usize);
            }
        }
    }
    for _ in 0..samples {
        v.push(rng.usize_below(len));
    }
    // the tail (padding, footer, terminator) completely
    for x in len.saturating_sub(tail)..len {
        v.push(x);
    }
    for x in 0..len.min(64) {
        v.push(x);
    }
    v.sort();
    v.dedup();
    (v, false)
}

/// bodyLength of an Arrow IPC Message flatbuffer (table field 3), or None if the bytes do not look like one
fn ipc_body_len(meta: &[u8]) -> Option<usize> {
    let u32_at = |o: usize| meta.get(o..o + 4).map(|b| u32::from_le_bytes([b[0], b[1], b[2], b[3]]) as usize);
    let u16_at = |o: usize| meta.get(o..o + 2).map(|b| u16::from_le_bytes([b[0], b[1]]) as usize);
    let table = u32_at(0)?;
    let soff = meta.get(table..table + 4).map(|b| i32::from_le_bytes([b[0], b[1], b[2], b[3]]))?;
    let vt = (table as i64 - soff as i64) as usize;
    let vt_len = u16_at(vt)?;
    if vt_len < 4 + 2 * 4 {
        return Some(0);
    }
    let off = u16_at(vt + 4 + 2 * 3)?;
    if off == 0 {
        return Some(0);
    }
    let b = meta.get(table + off..table + off + 8)?;
    let n = i64::from_le_bytes([b[0], b[1], b[2], b[3], b[4], b[5], b[6], b[7]]);
    if n < 0 {
        None
    } else {
        Some(n as usize)
    }
}

pub fn run(spec: &ScenarioSpec, ctx: &mut Ctx) -> Result<(), Violation> {
    let m = recorder::build(&spec.recorder);
    shape_of_model(ctx, &m, spec);
    ctx.shape("comp", spec.compression as u64);
    let mut rng = Rng::new(spec.knob("cut_seed") as u64);
    let edges = m.edges();
    // ---- .slp: every proper prefix, with and without skip-frames ----
    let huge = spec.knob("huge") != 0;
    ctx.probe_if(huge, "game of more than 65 536 frames, swept around message boundaries");
    // (a huge game has hundreds of thousands of event boundaries: the last few and a sample)
    let slp_anchors: Vec<usize> = if huge { edges.iter().rev().take(6).chain(edges.iter().take(6)).copied().collect() } else { edges.clone() };
    let (cuts, complete) = cut_points(m.bytes.len(), spec.knob("slp_full_limit").max(0) as usize, spec.knob("slp_samples").max(1) as usize, &slp_anchors, &mut rng, if huge { 24 } else { 600 });
    ctx.probe_if(complete, "complete sweep of every byte offset of a .slp");
    for skip in [false, true] {
        let opts = OptsSpec { skip_frames: skip, compute_hash: spec.opts.compute_hash };
        for &k in &cuts {
            let ro = read_slp(&m.bytes[..k], &spec.stream, &[], opts);
            ctx.rep.stream_calls += ro.stats.reads + ro.stats.seeks;
            match ro.res {
                Res::Err(..) => {}
                Res::Ok(_) => {
                    return Err(Violation::new(
                        P,
                        "unexpected-ok",
                        format!("slippi::read(skip={}) cut in {}", skip, classify_offset(&m, k)),
                        format!("file of {} bytes cut at offset {} was read as a game", m.bytes.len(), k),
                    ))
                }
                Res::Caught(c) => {
                    let mut v = caught_violation(P, &format!("slippi::read(skip={})", skip), &c);
                    v.message = format!("{} [cut at {} of {}, in {}]", v.message, k, m.bytes.len(), classify_offset(&m, k));
                    return Err(v);
                }
            }
            if edges.binary_search(&k).is_ok() {
                ctx.probe("EOF exactly on an event boundary");
            }
        }
        ctx.fault("cut(.slp)", cuts.len() as u64);
        ctx.checks(cuts.len() as u64);
    }
    // ---- .slpp produced by the real writer: every proper prefix ----
    let full = expect_ok(P, "slippi::read(uncut)", read_slp(&m.bytes, &StreamSpec::default(), &edges, OptsSpec { skip_frames: false, compute_hash: spec.opts.compute_hash }).res)?;
    let wz = write_slpp(full, &SinkSpec::default(), spec.compression);
    if is_o7(m.v, &wz.res) {
        ctx.skip("archive sweep: versions 3.0-3.6 cannot be written as .slpp (known finding of C02)");
        ctx.rep.nontrivial = true;
        return Ok(());
    }
    expect_ok(P, "peppi::write", wz.res)?;
    let z = wz.data;
    let uncut = expect_ok(P, "peppi::read(uncut)", read_slpp(&z, &StreamSpec::default(), false).res)?;
    let mut anchors: Vec<usize> = if huge { vec![] } else { (0..z.len()).step_by(512).collect() };
    if let Ok(ar) = crate::archive::Archive::open(&z) {
        for e in &ar.entries {
            anchors.push(e.data_off + e.size);
            if e.name == "frames.arrow" {
                // message boundaries inside the IPC stream are where a reader may decide to wait for more
                let d = &z[e.data_off..e.data_off + e.size];
                let mut p = 8usize;
                while p + 8 <= d.len() {
                    anchors.push(e.data_off + p);
                    let cont = u32::from_le_bytes([d[p], d[p + 1], d[p + 2], d[p + 3]]);
                    let (mlen, hdr) = if cont == 0xFFFF_FFFF { (u32::from_le_bytes([d[p + 4], d[p + 5], d[p + 6], d[p + 7]]) as usize, 8) } else { (cont as usize, 4) };
                    if mlen == 0 || mlen > d.len() {
                        ctx.probe_if(mlen == 0 && cont == 0xFFFF_FFFF, "cut anchors cover every IPC message boundary up to the end-of-stream marker");
                        break;
                    }
                    anchors.push(e.data_off + p + hdr);
                    anchors.push(e.data_off + p + hdr + mlen);
                    // the message body follows its metadata; its length is a field of the flatbuffer Message table
                    let body = ipc_body_len(&d[(p + hdr).min(d.len())..(p + hdr + mlen).min(d.len())]).unwrap_or(0);
                    p += hdr + mlen + body;
                    if anchors.len() > 4000 {
                        break;
                    }
                }
            }
        }
    }
    let (zcuts, zcomplete) = cut_points(z.len(), spec.knob("slpp_full_limit").max(0) as usize, spec.knob("slpp_samples").max(1) as usize, &anchors, &mut rng, if huge { 48 } else { 600 });
    ctx.probe_if(zcomplete, "complete sweep of every byte offset of a .slpp");
    for &k in &zcuts {
        let ro = read_slpp(&z[..k], &spec.stream, false);
        ctx.rep.stream_calls += ro.stats.reads;
        match ro.res {
            Res::Err(..) => {}
            Res::Ok(g) => {
                if let Err((s, msg)) = cmp_games(&g, &uncut, CmpMask::ALL) {
                    return Err(Violation::new(
                        P,
                        "unexpected-ok",
                        format!("peppi::read cut ({})", s),
                        format!("archive of {} bytes cut at offset {} was read as a different game: {}", z.len(), k, msg),
                    ));
                }
                ctx.probe("cut .slpp still read as exactly the full game (only padding/footer lost)");
            }
            Res::Caught(c) => {
                let mut v = caught_violation(P, "peppi::read", &c);
                v.message = format!("{} [archive cut at {} of {}]", v.message, k, z.len());
                return Err(v);
            }
        }
    }
    // the skip-frames option of the archive reader on a subset of the same cuts
    let uncut_skip = expect_ok(P, "peppi::read(skip, uncut)", read_slpp(&z, &StreamSpec::default(), true).res)?;
    let step = (zcuts.len() / 150).max(1);
    let mut nskip = 0u64;
    for &k in zcuts.iter().step_by(step) {
        let ro = read_slpp(&z[..k], &spec.stream, true);
        nskip += 1;
        match ro.res {
            Res::Err(..) => {}
            Res::Ok(g) => {
                if let Err((s, msg)) = cmp_games(&g, &uncut_skip, CmpMask::ALL) {
                    return Err(Violation::new(P, "unexpected-ok", format!("peppi::read(skip) cut ({})", s), format!("archive of {} bytes cut at offset {} was read (skip-frames) as a different game: {}", z.len(), k, msg)));
                }
            }
            Res::Caught(c) => {
                let mut v = caught_violation(P, "peppi::read(skip)", &c);
                v.message = format!("{} [archive cut at {} of {}]", v.message, k, z.len());
                return Err(v);
            }
        }
    }
    ctx.fault("cut(.slpp, skip-frames)", nskip);
    ctx.fault("cut(.slpp)", zcuts.len() as u64);
    ctx.checks(zcuts.len() as u64);
    ctx.rep.nontrivial = true;
    Ok(())
}

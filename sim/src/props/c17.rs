//! C17 — serialising any accepted game gives a self-consistent file and a fixed point (S1, irregular recorder).

use super::common::*;
use crate::gen::{self, GenCfg};
use crate::layout as L;
use crate::pipeline::*;
use crate::prng::Rng;
use crate::recorder;
use crate::report::{Ctx, Violation};
use crate::spec::*;
use crate::tok;
use crate::Tier;

const P: &str = "C17";

pub fn gen_unknown(rng: &mut Rng, n_events_hint: usize, max_codes: u64) -> Vec<UnknownEv> {
    // occasionally a table with very many entries (the table's size byte allows 84)
    let many_codes = max_codes >= 6 && rng.chance(1, 40);
    let ncodes = if many_codes { 20 + rng.usize_below(50) } else { 1 + rng.below(max_codes) as usize };
    // codes that sit next to the known ones, or that collide with the UBJSON markers which follow the raw element
    const SPECIAL: [u8; 12] = [0x55, 0x7D, 0x7B, 0x34, 0x3E, 0x3F, 0x11, 0x0F, 0x00, 0xFF, 0x5B, 0x53];
    let mut v: Vec<UnknownEv> = vec![];
    for _ in 0..ncodes {
        let code = loop {
            let c = if rng.chance(1, 3) { *rng.pick(&SPECIAL) } else { rng.below(256) as u8 };
            if !L::KNOWN_CODES.contains(&c) && !v.iter().any(|u: &UnknownEv| u.code == c) {
                break c;
            }
        };
        let size = match if rng.chance(1, 12) { 9 } else { rng.below(4) } {
            // nothing but the command byte
            9 => 0,
            0 => 1,
            1 => 1 + rng.below(8) as u16,
            2 => 1 + rng.below(600) as u16,
            _ => *rng.pick(&[4u16, 58, 63, 516, 517]),
        };
        // declared sizes at the edges of what 16 bits can say (the event need not even occur)
        let (size, edge) = if rng.chance(1, 15) { (*rng.pick(&[65535u16, 65534, 32768, 32767, 256, 255, 4096]), true) } else { (size, false) };
        let ninst = if edge {
            rng.below(3) as usize
        } else if many_codes {
            rng.below(3) as usize
        } else if rng.chance(1, 5) {
            0
        } else if rng.chance(1, 30) {
            // a flood of them (more than any fixed-size counter or buffer would expect)
            50 + rng.below(250) as usize
        } else {
            1 + rng.below(6) as usize
        };
        let after: Vec<u32> = (0..ninst).map(|_| rng.below(n_events_hint.max(1) as u64 + 2) as u32).collect();
        // from 3.3 on anything longer than a transfer block travels through Message Splitter blocks, as the Gecko
        // list does (the recorder model ignores the flag below 3.3)
        let split = rng.chance(1, 5);
        let size = if split && !edge && rng.chance(2, 3) { *rng.pick(&[513u16, 700, 1024, 1025, 1536, 3000, 512]) } else { size };
        v.push(UnknownEv { code, size, after, pseed: rng.next_u64(), split });
    }
    v
}

/// Table entries for events that never occur: unknown codes, and known codes the version does not use.
pub fn gen_phantom(rng: &mut Rng, v: (u8, u8)) -> Vec<(u8, u16)> {
    let mut out = vec![];
    let mut cands: Vec<(u8, u16)> = vec![];
    if !L::gte(v, (2, 2)) {
        cands.push((L::CODE_FSTART, 8));
    }
    if !L::gte(v, (3, 0)) {
        cands.push((L::CODE_ITEM, 37));
        cands.push((L::CODE_FEND, 4));
    }
    if !L::gte(v, (3, 3)) {
        cands.push((L::CODE_GECKO, 300));
        cands.push((L::CODE_SPLITTER, 516));
    }
    for c in cands {
        if rng.chance(1, 3) {
            out.push(c);
        }
    }
    if rng.chance(1, 3) {
        out.push((0x40 + rng.below(0x40) as u8, 1 + rng.below(300) as u16));
    }
    out
}

pub fn events_hint(rec: &RecorderSpec) -> usize {
    let mut n = 1;
    if let Some(g) = &rec.gecko {
        n += (g.len as usize + 511) / 512;
    }
    for f in &rec.frames {
        n += 2 + 2 * f.present.count_ones() as usize + f.items as usize;
    }
    n
}

pub fn gen(seed: u64, tier: Tier) -> ScenarioSpec {
    let mut rng = Rng::new(seed);
    let cfg = GenCfg { allow_large: tier == Tier::Thorough && rng.chance(1, 4), ..Default::default() };
    let mut rec = gen::gen_recorder(&mut rng, &cfg);
    if rng.chance(1, 2) {
        rec.extras.unknown = gen_unknown(&mut rng, events_hint(&rec), 3);
    }
    if rec.end != EndKind::None && rng.chance(1, 3) {
        rec.irregular.junk_after_end = 1 + rng.below(40) as u8;
        rec.irregular.junk_pseed = rng.next_u64();
        if rng.chance(1, 3) {
            // lengths around "1 + Game End size" of some version, starting with the Game End code
            rec.irregular.junk_after_end = *rng.pick(&[1u8, 2, 3, 4, 6, 7, 8]);
            rec.irregular.junk_pseed |= 1;
        } else {
            rec.irregular.junk_pseed &= !1;
        }
    }
    if rng.chance(1, 2) {
        rec.irregular.perm_pseed = Some(rng.next_u64());
    }
    // "any accepted game": below 3.3 the Gecko list and its splitter blocks are just more declared events the
    // version does not define — the reader takes them in all the same
    if !L::gte((rec.version[0], rec.version[1]), (3, 3)) && rng.chance(1, 10) {
        rec.force_gecko = true;
        rec.gecko = Some(GeckoSpec { len: 1 + rng.below(1500) as u32, pseed: rng.next_u64() });
    }
    // a recording that simply stops (power cut) usually stops inside a frame, not between two
    if rec.end == EndKind::None && !rec.frames.is_empty() && rng.chance(1, 12) {
        rec.cut_last_frame = 1 + rng.below(4) as u8;
        rec.extras = Extras::default();
    }
    // "any accepted game": metadata shapes at the edge of what the reader accepts (many maps, deepest chain)
    match rng.below(40) {
        0 => {
            let n = 100 + rng.usize_below(300);
            rec.metadata = Some(gen::gen_many_maps(&mut rng, n));
        }
        1 => {
            let d = 100 + rng.below(27) as u32;
            rec.metadata = Some(gen::gen_chain(&mut rng, d));
        }
        _ => {}
    }
    let len = gen::approx_len(&rec);
    let mut spec = gen::base_spec(P, "S1", seed, rec);
    spec.stream = gen::gen_stream(&mut rng, len, false);
    spec.sink = gen::gen_sink(&mut rng, false);
    if rng.chance(1, 10) {
        spec.sink.enospc_after = Some(if rng.chance(1, 2) { (len as u64).saturating_sub(1 + rng.below(64)) } else { rng.below(len.max(1) as u64) });
    }
    spec.knobs.insert("prelude".into(), gen_prelude(&mut rng, &[2, 4, 5], 5));
    if rng.chance(1, 2) {
        spec.knobs.insert("reread_prefix".into(), *rng.pick(&[1i64, 7, 16, 64, 4099]));
    }
    if rng.chance(1, 4) {
        spec.knobs.insert("reread_suffix".into(), *rng.pick(&[1i64, 20, 3000]));
    }
    spec
}

pub fn run(spec: &ScenarioSpec, ctx: &mut Ctx) -> Result<(), Violation> {
    let m = recorder::build(&spec.recorder);
    ctx.rep.sim_time_ns += m.sim_time_ns();
    shape_of_model(ctx, &m, spec);
    let irr = &spec.recorder.irregular;
    let has_unknown = m.events.iter().any(|e| matches!(e.what, recorder::What::Unknown | recorder::What::SplitUnknown { .. }));
    ctx.shape("irr", has_unknown as u64 | ((irr.junk_after_end > 0) as u64) << 1 | (irr.perm_pseed.is_some() as u64) << 2);
    ctx.probe_if(has_unknown, "unknown events in the stream");
    ctx.probe_if(irr.junk_after_end > 0 && m.end.is_some(), "junk after Game End inside the raw element");
    ctx.probe_if(irr.perm_pseed.is_some(), "non-canonical event order inside frames");
    ctx.probe_if(spec.recorder.cut_last_frame > 0 && m.end.is_none(), "recording stops inside its last frame");
    let edges = m.edges();
    prelude(spec.knob("prelude"), spec.seed, &m, ctx);
    let mut ro = read_slp_noopts(&m.bytes, &spec.stream, &edges);
    note_read(ctx, &mut ro);
    let g1 = match ro.res {
        Res::Ok(g) => g,
        _ => {
            // the statement quantifies over games the reader accepts
            ctx.skip("reader did not accept the irregular file (not this property's concern)");
            return Ok(());
        }
    };
    let w = write_slp(&g1, &spec.sink);
    note_write(ctx, &w);
    if w.failed {
        return match w.res {
            Res::Ok(()) => Err(Violation::new(P, "swallowed-io-error", "slippi::write", format!("the sink failed after {} bytes but slippi::write returned Ok", w.data.len()))),
            Res::Err(..) => {
                ctx.probe("sink full: writer reported the error");
                Ok(())
            }
            Res::Caught(c) => Err(caught_violation(P, "slippi::write", &c)),
        };
    }
    expect_ok(P, "slippi::write", w.res)?;
    let wbytes = w.data;
    // declared raw length == actual raw element length, by walking the written file's own payload table
    let t = tok::tokenise(&wbytes).map_err(|e| Violation::new(P, "length-inconsistent", "written-file", format!("cannot tokenise the written file: {}", e)))?;
    let actual = t.walked_end - recorder::HEADER_LEN;
    let next = wbytes.get(t.walked_end).copied();
    if t.raw_len_declared != actual || !(next == Some(0x55) || next == Some(0x7d)) {
        return Err(Violation::new(
            P,
            "length-inconsistent",
            "raw-length",
            format!("declared raw length {} but the raw element is {} bytes long (next byte {:?}); end present: {}", t.raw_len_declared, actual, next, g1.end.is_some()),
        ));
    }
    ctx.check();
    // the written file is read back as a member of a larger stream as often as on its own
    let mut back = StreamSpec::default();
    back.prefix = spec.knob("reread_prefix").max(0) as u32;
    back.suffix = spec.knob("reread_suffix").max(0) as u32;
    back.pseed = spec.seed;
    // ... and through the same kind of fragmenting stream the first read went through
    back.mode = spec.stream.mode.clone();
    ctx.probe_if(back.prefix > 0, "written file re-read from a non-zero stream offset");
    let g2 = expect_ok(P, "slippi::read(written)", read_slp_noopts(&wbytes, &back, &[]).res)?;
    let n = cmp_games(&g1, &g2, CmpMask { frames: true, hash: false, quirks: false, start_bytes: true })
        .map_err(|(s, msg)| Violation::new(P, "not-fixed-point", format!("reread {}", s), msg))?;
    ctx.checks(n);
    let w2 = write_slp(&g2, &SinkSpec::default());
    expect_ok(P, "slippi::write(2)", w2.res)?;
    if let Some(off) = first_diff(&w2.data, &wbytes) {
        return Err(Violation::new(P, "not-fixed-point", "second-write", format!("second write differs from the first at offset {}", off)));
    }
    ctx.check();
    ctx.rep.nontrivial = has_unknown || irr.junk_after_end > 0 || irr.perm_pseed.is_some() || m.end.is_none() || m.metadata.is_none();
    Ok(())
}

//! C04 — rows, presence and item grouping mirror the event history (S2 step by step, S1 final state).

use super::common::*;
use crate::gen::{self, GenCfg};
use crate::oracle;
use crate::prng::Rng;
use crate::recorder;
use crate::report::{Ctx, Violation};
use crate::s2;
use crate::spec::*;
use crate::Tier;

const P: &str = "C04";

pub fn gen(seed: u64, tier: Tier) -> ScenarioSpec {
    let mut rng = Rng::new(seed);
    let cfg = GenCfg { allow_large: tier == Tier::Thorough, min_frames: 2, ..Default::default() };
    let mut rec = gen::gen_recorder(&mut rng, &cfg);
    // history-heavy workload: more ports, guaranteed absence somewhere in half of the runs
    if rng.chance(1, 2) && !rec.frames.is_empty() {
        let k = rng.usize_below(rec.frames.len());
        let bit = 1u8 << rng.below(8);
        rec.frames[k].present &= !bit;
        if rng.chance(1, 3) {
            rec.frames[0].present &= !bit;
        }
        if rng.chance(1, 3) {
            let l = rec.frames.len() - 1;
            rec.frames[l].present &= !bit;
        }
    }
    if rng.chance(1, 6) {
        // the payload table may declare events that never occur (a recorder built with support it does not use)
        rec.extras.phantom = super::c17::gen_phantom(&mut rng, (rec.version[0], rec.version[1]));
    }
    // rare and long: a character that stays away for exactly 65 536 rows (or turns up for the first time in
    // row 65 536) — whatever a reader keeps per character about "the row I last saw you in" must be wide enough
    let mut long_absence = false;
    if rng.chance(1, if tier == Tier::Thorough { 2500 } else { 4000 }) {
        long_absence = true;
        if rec.ports.len() < 2 {
            rec.ports = vec![PortSpec { port: 0, ptype: 0, ics: false }, PortSpec { port: 2, ptype: 1, ics: false }];
        }
        rec.ports.truncate(2);
        for p in rec.ports.iter_mut() {
            p.ics = false;
        }
        let k = rng.usize_below(3);
        let first_seen = rng.chance(1, 2);
        let n = k + 65_536 + 1 + rng.usize_below(4);
        let pseed = rng.next_u64();
        rec.frames = (0..n)
            .map(|r| {
                let b_present = if first_seen { r >= 65_536 } else { r == k || r >= k + 65_536 };
                FrameSpec { id: -123 + r as i32, present: 0b01 | if b_present { 0b0100 } else { 0 }, items: 0, pseed: crate::prng::mix(pseed, r as u64) }
            })
            .collect();
        rec.gecko = None;
        rec.extras = Extras::default();
        rec.irregular = Irregular::default();
    }
    // now and then a newer recorder build interleaves events this library does not know (declared in the
    // payload table), also between the events of two characters of one frame: they open, close and pad nothing
    if !long_absence && rng.chance(1, 8) {
        rec.extras.unknown = super::c17::gen_unknown(&mut rng, super::c17::events_hint(&rec), 2);
    }
    let len = gen::approx_len(&rec);
    // (the long game is read in one shot: the per-event oracle re-examines rows and would take minutes)
    let live = !long_absence && rng.chance(1, 2);
    let mut spec = gen::base_spec(P, if live { "S2" } else { "S1" }, seed, rec);
    spec.stream = gen::gen_stream(&mut rng, len, true);
    if live {
        spec.api = Api::Incremental;
        if rng.chance(7, 10) {
            spec.live = Some(gen_live(&mut rng, len, 8));
            spec.knobs.insert("resume".into(), 1);
        }
        spec.knobs.insert("recheck_every".into(), *rng.pick(&[0i64, 11, 60]));
    }
    spec.knobs.insert("prelude".into(), gen_prelude(&mut rng, &[1, 4, 5], 8));
    spec
}

pub fn run(spec: &ScenarioSpec, ctx: &mut Ctx) -> Result<(), Violation> {
    let m = recorder::build(&spec.recorder);
    ctx.rep.sim_time_ns += m.sim_time_ns();
    shape_of_model(ctx, &m, spec);
    prelude(spec.knob("prelude"), spec.seed, &m, ctx);
    ctx.shape("api", (spec.api == Api::Incremental) as u64);
    if spec.api == Api::Incremental {
        return s2::run(spec, &m, ctx, P, s2::Flags { model_rows: true, row_view: false, protocol: false, final_equiv: false });
    }
    let Some(game) = s1_read(P, spec, &m, ctx, false)? else { return Ok(()) };
    let n = oracle::check_all_rows(&m, &game.frames).map_err(|f| fail_v(P, f))?;
    ctx.checks(n);
    ctx.rep.nontrivial = m.occs.len() >= 2;
    Ok(())
}

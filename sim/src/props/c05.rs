//! C05 — Game Start / Game End fields equal the spec-offset values of the raw blocks (S1).

use super::common::*;
use crate::gen::{self, GenCfg, SizeClass};
use crate::layout::{self as L, ge, gs};
use crate::prng::Rng;
use crate::recorder::{self, StartStrings};
use crate::report::{Ctx, Violation};
use crate::spec::*;
use crate::Tier;
use peppi::game;
use serde_json::{json, Map, Value};

const P: &str = "C05";

pub fn gen(seed: u64, _tier: Tier) -> ScenarioSpec {
    let mut rng = Rng::new(seed);
    let cfg = GenCfg { size: Some(SizeClass::Tiny), ..Default::default() };
    let mut rec = gen::gen_recorder(&mut rng, &cfg);
    // occupancy/type patterns: any subset, gaps, garbage type bytes on empty ports
    let n = rng.below(5) as usize;
    let mut avail: Vec<u8> = vec![0, 1, 2, 3];
    let mut ports = vec![];
    for _ in 0..n.max(1) {
        let i = rng.usize_below(avail.len());
        ports.push(PortSpec { port: avail.remove(i), ptype: rng.below(3) as u8, ics: rng.chance(1, 5) });
    }
    ports.sort_by_key(|p| p.port);
    rec.ports = ports;
    for e in rec.empty_types.iter_mut() {
        *e = if rng.chance(1, 2) { 3 } else { 3 + rng.below(253) as u8 };
    }
    // what the slots of an unoccupied port hold is nobody's business: no exposed field depends on them
    rec.empty_garbage = rng.chance(1, 4);
    rec.frames.clear();
    // usually no metadata; sometimes the tree a real recorder writes, whose per-player names are the
    // recorder's own copy: nothing in it may find its way into the Game Start fields
    rec.metadata = if rng.chance(1, 3) { Some(gen::gen_recorder_tree(&mut rng, &rec.ports, -123)) } else { None };
    rec.gecko = None;
    if rng.chance(4, 5) {
        rec.end = EndKind::Single;
    }
    let finished = rec.end != EndKind::None;
    let mut spec = gen::base_spec(P, "S1", seed, rec);
    spec.stream = gen::gen_stream(&mut rng, 1200, false);
    // the same fields must come out of a skip-frames read (finished files only) and with hashing on
    if finished && rng.chance(1, 3) {
        spec.opts.skip_frames = true;
    }
    spec.opts.compute_hash = rng.chance(1, 4);
    spec.knobs.insert("prelude".into(), gen_prelude(&mut rng, &[1, 2, 4, 5, 6, 6], 4));
    spec
}

fn be16(b: &[u8], o: usize) -> u16 {
    u16::from_be_bytes([b[o], b[o + 1]])
}
fn be32(b: &[u8], o: usize) -> u32 {
    u32::from_be_bytes([b[o], b[o + 1], b[o + 2], b[o + 3]])
}
fn f32v(b: &[u8], o: usize) -> Value {
    serde_json::to_value(f32::from_bits(be32(b, o))).unwrap()
}
fn port_name(p: usize) -> &'static str {
    ["P1", "P2", "P3", "P4"][p]
}

/// Expected JSON rendering of Game Start, built from the raw block through the independent offsets.
pub fn expected_start_json(b: &[u8], strings: &StartStrings) -> Value {
    let len = b.len() - 1;
    let is_teams = b[gs::IS_TEAMS] != 0;
    let mut players = vec![];
    for p in 0..4usize {
        let pb = gs::PLAYERS + p * gs::PLAYER_STRIDE;
        let ty = b[pb + gs::P_TYPE];
        if ty > 2 {
            continue;
        }
        let mut o = Map::new();
        o.insert("port".into(), json!(port_name(p)));
        o.insert("character".into(), json!(b[pb + gs::P_CHARACTER]));
        o.insert("type".into(), json!(["Human", "Cpu", "Demo"][ty as usize]));
        o.insert("stocks".into(), json!(b[pb + gs::P_STOCKS]));
        o.insert("costume".into(), json!(b[pb + gs::P_COSTUME]));
        o.insert(
            "team".into(),
            if is_teams { json!({"color": b[pb + gs::P_TEAM_COLOR], "shade": b[pb + gs::P_TEAM_SHADE]}) } else { Value::Null },
        );
        o.insert("handicap".into(), json!(b[pb + gs::P_HANDICAP]));
        o.insert("bitfield".into(), json!(b[pb + gs::P_BITFIELD]));
        o.insert("cpu_level".into(), if ty == 1 { json!(b[pb + gs::P_CPU_LEVEL]) } else { Value::Null });
        o.insert("offense_ratio".into(), f32v(b, pb + gs::P_OFFENSE));
        o.insert("defense_ratio".into(), f32v(b, pb + gs::P_DEFENSE));
        o.insert("model_scale".into(), f32v(b, pb + gs::P_SCALE));
        if len >= 352 {
            let name = |x: u32| match x {
                0 => Value::Null,
                1 => json!("Ucf"),
                _ => json!("Arduino"),
            };
            o.insert("ucf".into(), json!({"dash_back": name(be32(b, gs::UCF + 8 * p)), "shield_drop": name(be32(b, gs::UCF + 8 * p + 4))}));
        }
        if len >= 416 {
            o.insert("name_tag".into(), json!(strings.name_tags[p].clone().unwrap()));
        }
        if len >= 584 {
            let mut n = Map::new();
            n.insert("name".into(), json!(strings.netplay_names[p].clone().unwrap()));
            n.insert("code".into(), json!(strings.connect_codes[p].clone().unwrap()));
            if len >= 700 {
                n.insert("suid".into(), json!(strings.suids[p].clone().unwrap()));
            }
            o.insert("netplay".into(), Value::Object(n));
        }
        players.push(Value::Object(o));
    }
    let mut s = Map::new();
    s.insert("slippi".into(), json!({"version": [b[1], b[2], b[3]]}));
    s.insert("bitfield".into(), json!([b[gs::BITFIELD], b[gs::BITFIELD + 1], b[gs::BITFIELD + 2], b[gs::BITFIELD + 3]]));
    s.insert("is_raining_bombs".into(), json!(b[gs::IS_RAINING_BOMBS] != 0));
    s.insert("is_teams".into(), json!(is_teams));
    s.insert("item_spawn_frequency".into(), json!(b[gs::ITEM_SPAWN_FREQ] as i8));
    s.insert("self_destruct_score".into(), json!(b[gs::SD_SCORE] as i8));
    s.insert("stage".into(), json!(be16(b, gs::STAGE)));
    s.insert("timer".into(), json!(be32(b, gs::TIMER)));
    s.insert("item_spawn_bitfield".into(), json!(b[gs::ITEM_SPAWN_BITFIELD..gs::ITEM_SPAWN_BITFIELD + 5].to_vec()));
    s.insert("damage_ratio".into(), f32v(b, gs::DAMAGE_RATIO));
    s.insert("players".into(), Value::Array(players));
    s.insert("random_seed".into(), json!(be32(b, gs::RANDOM_SEED)));
    if len >= 417 {
        s.insert("is_pal".into(), json!(b[gs::IS_PAL] != 0));
    }
    if len >= 418 {
        s.insert("is_frozen_ps".into(), json!(b[gs::IS_FROZEN_PS] != 0));
    }
    if len >= 420 {
        s.insert("scene".into(), json!({"minor": b[gs::SCENE_MINOR], "major": b[gs::SCENE_MAJOR]}));
    }
    if len >= 701 {
        s.insert("language".into(), json!(if b[gs::LANGUAGE] == 0 { "Japanese" } else { "English" }));
    }
    if len >= 760 {
        s.insert(
            "match".into(),
            json!({"id": strings.match_id.clone().unwrap(), "game": be32(b, gs::GAME_NUMBER), "tiebreaker": be32(b, gs::TIEBREAKER)}),
        );
    }
    Value::Object(s)
}

pub fn expected_end_json(b: &[u8]) -> Value {
    let len = b.len() - 1;
    let mut e = Map::new();
    let method = match b[ge::METHOD] {
        0 => "Unresolved",
        1 => "Time",
        2 => "Game",
        3 => "Resolved",
        _ => "NoContest",
    };
    e.insert("method".into(), json!(method));
    if len >= 2 {
        e.insert("lras_initiator".into(), if b[ge::LRAS] == 255 { Value::Null } else { json!(port_name(b[ge::LRAS] as usize)) });
    }
    if len >= 6 {
        let mut ps = vec![];
        for p in 0..4 {
            let pl = b[ge::PLACEMENTS + p] as i8;
            if pl >= 0 {
                ps.push(json!({"port": port_name(p), "placement": pl}));
            }
        }
        e.insert("players".into(), Value::Array(ps));
    }
    Value::Object(e)
}

/// Typed field checks (not via JSON) for the Start block.
fn check_start_typed(s: &game::Start, b: &[u8], strings: &StartStrings) -> Result<u64, (String, String)> {
    let len = b.len() - 1;
    let mut n = 0u64;
    macro_rules! eq {
        ($name:expr, $got:expr, $exp:expr) => {{
            let g = $got;
            let e = $exp;
            if g != e {
                return Err(($name.to_string(), format!("got {:?}, raw block says {:?}", g, e)));
            }
            n += 1;
        }};
    }
    eq!("start.slippi.version", (s.slippi.version.0, s.slippi.version.1, s.slippi.version.2), (b[1], b[2], b[3]));
    eq!("start.bitfield", s.bitfield.to_vec(), b[gs::BITFIELD..gs::BITFIELD + 4].to_vec());
    eq!("start.is_raining_bombs", s.is_raining_bombs, b[gs::IS_RAINING_BOMBS] != 0);
    eq!("start.is_teams", s.is_teams, b[gs::IS_TEAMS] != 0);
    eq!("start.item_spawn_frequency", s.item_spawn_frequency, b[gs::ITEM_SPAWN_FREQ] as i8);
    eq!("start.self_destruct_score", s.self_destruct_score, b[gs::SD_SCORE] as i8);
    eq!("start.stage", s.stage, be16(b, gs::STAGE));
    eq!("start.timer", s.timer, be32(b, gs::TIMER));
    eq!("start.item_spawn_bitfield", s.item_spawn_bitfield.to_vec(), b[gs::ITEM_SPAWN_BITFIELD..gs::ITEM_SPAWN_BITFIELD + 5].to_vec());
    eq!("start.damage_ratio", s.damage_ratio.to_bits(), be32(b, gs::DAMAGE_RATIO));
    eq!("start.random_seed", s.random_seed, be32(b, gs::RANDOM_SEED));
    eq!("start.is_pal", s.is_pal, (len >= 417).then(|| b[gs::IS_PAL] != 0));
    eq!("start.is_frozen_ps", s.is_frozen_ps, (len >= 418).then(|| b[gs::IS_FROZEN_PS] != 0));
    eq!("start.scene", s.scene.map(|x| (x.minor, x.major)), (len >= 420).then(|| (b[gs::SCENE_MINOR], b[gs::SCENE_MAJOR])));
    eq!("start.language", s.language.map(|l| l as u8), (len >= 701).then(|| b[gs::LANGUAGE]));
    eq!(
        "start.match",
        s.r#match.as_ref().map(|m| (m.id.clone(), m.game, m.tiebreaker)),
        (len >= 760).then(|| (strings.match_id.clone().unwrap(), be32(b, gs::GAME_NUMBER), be32(b, gs::TIEBREAKER)))
    );
    eq!("start.bytes", &s.bytes.0[..], &b[1..]);
    let expected_ports: Vec<usize> = (0..4).filter(|p| b[gs::PLAYERS + p * gs::PLAYER_STRIDE + gs::P_TYPE] <= 2).collect();
    eq!("start.players(ports)", s.players.iter().map(|p| p.port as usize).collect::<Vec<_>>(), expected_ports.clone());
    let is_teams = b[gs::IS_TEAMS] != 0;
    for (pl, &p) in s.players.iter().zip(expected_ports.iter()) {
        let pb = gs::PLAYERS + p * gs::PLAYER_STRIDE;
        let site = |f: &str| format!("start.players[P{}].{}", p + 1, f);
        eq!(site("character"), pl.character, b[pb + gs::P_CHARACTER]);
        eq!(site("type"), pl.r#type as u8, b[pb + gs::P_TYPE]);
        eq!(site("stocks"), pl.stocks, b[pb + gs::P_STOCKS]);
        eq!(site("costume"), pl.costume, b[pb + gs::P_COSTUME]);
        eq!(site("team"), pl.team.map(|t| (t.color, t.shade)), is_teams.then(|| (b[pb + gs::P_TEAM_COLOR], b[pb + gs::P_TEAM_SHADE])));
        eq!(site("handicap"), pl.handicap, b[pb + gs::P_HANDICAP]);
        eq!(site("bitfield"), pl.bitfield, b[pb + gs::P_BITFIELD]);
        eq!(site("cpu_level"), pl.cpu_level, (b[pb + gs::P_TYPE] == 1).then(|| b[pb + gs::P_CPU_LEVEL]));
        eq!(site("offense_ratio"), pl.offense_ratio.to_bits(), be32(b, pb + gs::P_OFFENSE));
        eq!(site("defense_ratio"), pl.defense_ratio.to_bits(), be32(b, pb + gs::P_DEFENSE));
        eq!(site("model_scale"), pl.model_scale.to_bits(), be32(b, pb + gs::P_SCALE));
        let ucf = |x: u32| if x == 0 { None } else { Some(x) };
        eq!(
            site("ucf"),
            pl.ucf.map(|u| (u.dash_back.map(|d| d as u32), u.shield_drop.map(|d| d as u32))),
            (len >= 352).then(|| (ucf(be32(b, gs::UCF + 8 * p)), ucf(be32(b, gs::UCF + 8 * p + 4))))
        );
        eq!(site("name_tag"), pl.name_tag.as_ref().map(|s| s.0.clone()), if len >= 416 { strings.name_tags[p].clone() } else { None });
        eq!(
            site("netplay"),
            pl.netplay.as_ref().map(|n| (n.name.0.clone(), n.code.0.clone(), n.suid.clone())),
            (len >= 584).then(|| (
                strings.netplay_names[p].clone().unwrap(),
                strings.connect_codes[p].clone().unwrap(),
                if len >= 700 { strings.suids[p].clone() } else { None }
            ))
        );
    }
    Ok(n)
}

fn check_end_typed(e: &game::End, b: &[u8]) -> Result<u64, (String, String)> {
    let len = b.len() - 1;
    let mut n = 0;
    if e.method as u8 != b[ge::METHOD] {
        return Err(("end.method".into(), format!("got {:?}, raw {}", e.method, b[ge::METHOD])));
    }
    let exp_lras: Option<Option<u8>> = (len >= 2).then(|| if b[ge::LRAS] == 255 { None } else { Some(b[ge::LRAS]) });
    let got_lras = e.lras_initiator.map(|o| o.map(|p| p as u8));
    if got_lras != exp_lras {
        return Err(("end.lras_initiator".into(), format!("got {:?}, raw says {:?}", got_lras, exp_lras)));
    }
    let exp_pl: Option<Vec<(u8, u8)>> =
        (len >= 6).then(|| (0..4).filter(|p| (b[ge::PLACEMENTS + p] as i8) >= 0).map(|p| (p as u8, b[ge::PLACEMENTS + p])).collect());
    let got_pl = e.players.as_ref().map(|v| v.iter().map(|p| (p.port as u8, p.placement)).collect::<Vec<_>>());
    if got_pl != exp_pl {
        return Err(("end.players".into(), format!("got {:?}, raw says {:?}", got_pl, exp_pl)));
    }
    if e.bytes.0[..] != b[1..] {
        return Err(("end.bytes".into(), "raw block not retained unchanged".into()));
    }
    n += 4;
    Ok(n)
}

pub fn check_start_end(prop: &str, m: &recorder::Model, rec: &RecorderSpec, g: &peppi::game::immutable::Game, ctx: &mut Ctx) -> Result<(), Violation> {
    let (sb, strings) = recorder::build_start(rec);
    if sb != m.start {
        return Err(Violation::new(prop, "harness-error", "c05", "start block rebuilt differently"));
    }
    let n = check_start_typed(&g.start, &m.start, &strings).map_err(|(s, msg)| Violation::new(prop, "field-mismatch", s, msg))?;
    ctx.checks(n);
    let got = serde_json::to_value(&g.start).map_err(|e| Violation::new(prop, "json-mismatch", "start.json", e.to_string()))?;
    let exp = expected_start_json(&m.start, &strings);
    if got != exp {
        let site = json_diff_site(&got, &exp, "start");
        return Err(Violation::new(prop, "json-mismatch", site, format!("JSON rendering {} vs expected {}", crate::report::short(&got.to_string(), 150), crate::report::short(&exp.to_string(), 150))));
    }
    ctx.check();
    match (&g.end, &m.end) {
        (None, None) => {}
        (Some(e), Some(b)) => {
            let n = check_end_typed(e, b).map_err(|(s, msg)| Violation::new(prop, "field-mismatch", s, msg))?;
            ctx.checks(n);
            let got = serde_json::to_value(e).map_err(|e| Violation::new(prop, "json-mismatch", "end.json", e.to_string()))?;
            let exp = expected_end_json(b);
            if got != exp {
                return Err(Violation::new(prop, "json-mismatch", json_diff_site(&got, &exp, "end"), format!("{} vs expected {}", got, exp)));
            }
            ctx.check();
        }
        (a, b) => return Err(Violation::new(prop, "field-mismatch", "end", format!("end present {} but recorded {}", a.is_some(), b.is_some()))),
    }
    Ok(())
}

/// Path of the first difference between two JSON values (for stable violation sites).
pub fn json_diff_site(a: &Value, b: &Value, path: &str) -> String {
    match (a, b) {
        (Value::Object(x), Value::Object(y)) => {
            for (k, v) in x {
                match y.get(k) {
                    None => return format!("{}.{} (unexpected key)", path, k),
                    Some(w) if v != w => return json_diff_site(v, w, &format!("{}.{}", path, k)),
                    _ => {}
                }
            }
            for k in y.keys() {
                if !x.contains_key(k) {
                    return format!("{}.{} (missing key)", path, k);
                }
            }
            path.to_string()
        }
        (Value::Array(x), Value::Array(y)) => {
            if x.len() != y.len() {
                return format!("{} (length)", path);
            }
            for (i, (v, w)) in x.iter().zip(y.iter()).enumerate() {
                if v != w {
                    return json_diff_site(v, w, &format!("{}[{}]", path, if path.ends_with("players") { "*".to_string() } else { i.to_string() }));
                }
            }
            path.to_string()
        }
        _ => path.to_string(),
    }
}

pub fn run(spec: &ScenarioSpec, ctx: &mut Ctx) -> Result<(), Violation> {
    let m = recorder::build(&spec.recorder);
    shape_of_model(ctx, &m, spec);
    let mut tp = 0u64;
    for p in 0..4usize {
        tp = tp * 8 + (m.start[gs::PLAYERS + p * gs::PLAYER_STRIDE + gs::P_TYPE].min(4)) as u64;
    }
    ctx.shape("types", tp);
    ctx.shape("teams", spec.recorder.teams as u64);
    ctx.shape("startlen", L::start_size(m.v) as u64);
    ctx.shape("endlen", m.end.as_ref().map_or(0, |e| e.len()) as u64);
    ctx.probe(&format!("Game Start length class {}", L::start_size(m.v)));
    ctx.probe_if(m.ports.iter().any(|p| p.ptype == 2), "demo player");
    ctx.probe_if(m.ports.windows(2).any(|w| w[1].port > w[0].port + 1), "gap between occupied ports");
    ctx.probe_if(spec.recorder.teams, "teams on");
    ctx.shape("opts", spec.opts.skip_frames as u64 | (spec.opts.compute_hash as u64) << 1);
    ctx.probe_if(spec.opts.skip_frames, "Game Start/End read with skip_frames");
    prelude(spec.knob("prelude"), spec.seed, &m, ctx);
    let Some(game) = s1_read(P, spec, &m, ctx, true)? else { return Ok(()) };
    check_start_end(P, &m, &spec.recorder, &game, ctx)?;
    ctx.rep.nontrivial = true;
    Ok(())
}

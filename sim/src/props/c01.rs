//! C01 — .slp -> Game -> .slp is bit-identical (family S1).

use super::common::*;
use crate::gen::{self, GenCfg};
use crate::pipeline::*;
use crate::prng::Rng;
use crate::recorder;
use crate::report::{Ctx, Violation};
use crate::spec::*;
use crate::Tier;

const P: &str = "C01";

pub fn gen(seed: u64, tier: Tier) -> ScenarioSpec {
    let mut rng = Rng::new(seed);
    let cfg = GenCfg { allow_large: tier == Tier::Thorough, ..Default::default() };
    let mut rec = gen::gen_recorder(&mut rng, &cfg);
    // the empty set of occupied ports: a recording nobody plays in (legal; before 2.2 its frames leave no bytes)
    if rng.chance(1, 60) {
        rec.ports.clear();
        if !crate::layout::gte((rec.version[0], rec.version[1]), (2, 2)) {
            rec.frames.clear();
        }
        for f in rec.frames.iter_mut() {
            f.present = 0;
        }
    }
    // what the per-port slots of an unoccupied port hold is nobody's business (undecodable text included):
    // the block is kept as bytes and must come back as bytes
    if rng.chance(1, 6) {
        rec.empty_garbage = true;
    }
    let len = gen::approx_len(&rec);
    let mut spec = gen::base_spec(P, "S1", seed, rec);
    spec.stream = gen::gen_stream(&mut rng, len, true);
    spec.sink = gen::gen_sink(&mut rng, true);
    if rng.chance(1, 8) {
        // the disk fills up: the writer must then report an error, never Ok with a shorter file.
        // Biased to the tail of the file (a buffered writer that forgets to flush fails there).
        spec.sink.enospc_after = Some(if rng.chance(2, 3) { (len as u64).saturating_sub(1 + rng.below(64)) } else { rng.below(len.max(1) as u64) });
    }
    spec.knobs.insert("prelude".into(), gen_prelude(&mut rng, &[2, 4, 5], 5));
    spec
}

pub fn run(spec: &ScenarioSpec, ctx: &mut Ctx) -> Result<(), Violation> {
    let m = recorder::build(&spec.recorder);
    ctx.rep.sim_time_ns += m.sim_time_ns();
    shape_of_model(ctx, &m, spec);
    let edges = m.edges();
    prelude(spec.knob("prelude"), spec.seed, &m, ctx);
    let mut ro = read_slp_noopts(&m.bytes, &spec.stream, &edges);
    note_read(ctx, &mut ro);
    let relaxed = ro.interrupted_returned;
    let game = match ro.res {
        Res::Ok(g) => g,
        Res::Err(e, k) => {
            if relaxed && k == Some(std::io::ErrorKind::Interrupted) {
                ctx.skip("read surfaced Interrupted (allowed)");
                return Ok(());
            }
            return Err(Violation::new(P, "unexpected-err", "slippi::read", crate::report::short(&e, 200)));
        }
        Res::Caught(c) => return Err(caught_violation(P, "slippi::read", &c)),
    };
    ctx.check();
    let wo = write_slp(&game, &spec.sink);
    note_write(ctx, &wo);
    match &wo.res {
        Res::Ok(()) => {}
        Res::Err(e, k) => {
            if wo.interrupted_returned && *k == Some(std::io::ErrorKind::Interrupted) {
                ctx.skip("write surfaced Interrupted (allowed)");
                return Ok(());
            }
            if wo.failed {
                // the sink ran out of space and the writer said so: nothing more to require
                ctx.probe("sink full: writer reported the error");
                ctx.rep.nontrivial = true;
                return Ok(());
            }
            return Err(Violation::new(P, "unexpected-err", "slippi::write", crate::report::short(e, 200)));
        }
        Res::Caught(c) => return Err(caught_violation(P, "slippi::write", c)),
    }
    ctx.check();
    if let Some(off) = first_diff(&wo.data, &m.bytes) {
        return Err(Violation::new(
            P,
            "bytes-differ",
            classify_offset(&m, off),
            format!(
                "written file differs from the recorded one at offset {} (lengths {} vs {}), version {}.{}.{}",
                off,
                wo.data.len(),
                m.bytes.len(),
                m.version[0],
                m.version[1],
                m.version[2]
            ),
        ));
    }
    ctx.check();
    let deviated = ro.stats.short_reads + ro.stats.eintr + wo.stats.short_writes + wo.stats.write_eintr > 0;
    ctx.rep.nontrivial = !m.occs.is_empty() && deviated;
    Ok(())
}

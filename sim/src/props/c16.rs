//! C16 — metadata trees keep order and bytes (S1 + archive leg).

use super::common::*;
use crate::archive::{tree_json_string, Archive};
use crate::gen::{self, GenCfg, SizeClass};
use crate::pipeline::*;
use crate::prng::Rng;
use crate::recorder;
use crate::report::{Ctx, Violation};
use crate::spec::*;
use crate::Tier;

const P: &str = "C16";

pub fn gen(seed: u64, tier: Tier) -> ScenarioSpec {
    let mut rng = Rng::new(seed);
    let cfg = GenCfg { size: Some(if rng.chance(1, 2) { SizeClass::Tiny } else { SizeClass::Small }), ..Default::default() };
    let mut rec = gen::gen_recorder(&mut rng, &cfg);
    rec.metadata = match rng.below(20) {
        0..=2 => None,
        3 => Some(vec![]),
        7 => {
            let n = 100 + rng.usize_below(300);
            Some(gen::gen_many_maps(&mut rng, n))
        }
        4..=6 => {
            // up to 127 levels in total (the chain plus the top-level map): the deepest tree both formats carry
            let d = match rng.below(7) {
                0 => 126,
                // beyond the deepest tree both formats carry: the reader may refuse it, but whatever it
                // accepts must survive the rest of the pipeline
                6 => 127 + rng.below(14) as u32,
                1 => 120 + rng.below(7) as u32,
                _ => 1 + rng.below(if tier == Tier::Thorough { 100 } else { 40 }) as u32,
            };
            Some(gen::gen_chain(&mut rng, d))
        }
        _ => {
            let d = 1 + rng.below(5) as u32;
            Some(gen::gen_tree(&mut rng, d, true))
        }
    };
    if rng.chance(1, if tier == Tier::Thorough { 2000 } else { 10_000 }) {
        let n = 1_100_000 + rng.usize_below(400_000);
        rec.metadata = Some(gen::gen_big_tree(&mut rng, n));
    }
    rec.gecko = None;
    // the raw element may go on after Game End (events a newer recorder appends there, declared in the
    // payload table): the reader has to be past all of them before it looks for the metadata element
    if rec.end != EndKind::None && rng.chance(1, 8) {
        let mut us = super::c17::gen_unknown(&mut rng, super::c17::events_hint(&rec), 2);
        us.truncate(1);
        if let Some(u) = us.first_mut() {
            rec.end = EndKind::Single;
            u.split = false;
            u.after = vec![1_000_000; 1 + rng.usize_below(3)];
            if rng.chance(1, 2) {
                u.size = *rng.pick(&[1u16, 2, 6]);
            }
        }
        rec.extras.unknown = us;
    }
    let len = gen::approx_len(&rec) + 3000;
    let mut spec = gen::base_spec(P, "S1", seed, rec);
    spec.stream = gen::gen_stream(&mut rng, len, true);
    spec.stream2 = gen::gen_stream(&mut rng, len, false);
    spec.sink = gen::gen_sink(&mut rng, false);
    if rng.chance(1, 8) {
        // the disk fills up, most often within the metadata block at the end of the file
        spec.sink.enospc_after = Some(if rng.chance(3, 4) { (len as u64).saturating_sub(3000 + 1).saturating_add(rng.below(3000)) } else { rng.below(len as u64) });
    }
    spec.compression = *rng.pick(&[Compression::None, Compression::Lz4, Compression::Zstd]);
    // the tree does not depend on how the file is read
    spec.opts.compute_hash = rng.chance(1, 3);
    // (the skip-frames option presumes that Game End is the last event of the raw element — C10's premise)
    spec.opts.skip_frames = spec.recorder.end != EndKind::None && spec.recorder.extras.unknown.is_empty() && rng.chance(1, 4);
    spec.knobs.insert("prelude".into(), gen_prelude(&mut rng, &[1, 2, 3, 5], 5));
    spec
}

fn tree_stats(t: &Tree, depth: u32, max_depth: &mut u32, long: &mut bool, multibyte: &mut bool, negative: &mut bool) {
    *max_depth = (*max_depth).max(depth);
    for (k, v) in t {
        if !k.is_ascii() {
            *multibyte = true;
        }
        match v {
            Node::Str(s) => {
                if s.len() >= 200 {
                    *long = true;
                }
                if !s.is_ascii() {
                    *multibyte = true;
                }
            }
            Node::Int(i) => {
                if *i < 0 {
                    *negative = true;
                }
            }
            Node::Map(m) => tree_stats(m, depth + 1, max_depth, long, multibyte, negative),
        }
    }
}

fn count_maps(t: &[(String, Node)]) -> usize {
    t.iter().map(|(_, n)| if let Node::Map(m) = n { 1 + count_maps(m) } else { 0 }).sum()
}

pub fn run(spec: &ScenarioSpec, ctx: &mut Ctx) -> Result<(), Violation> {
    let m = recorder::build(&spec.recorder);
    shape_of_model(ctx, &m, spec);
    let (mut md, mut long, mut mb, mut neg) = (0, false, false, false);
    if let Some(t) = &m.metadata {
        tree_stats(t, 1, &mut md, &mut long, &mut mb, &mut neg);
    }
    ctx.shape("mdepth", md.min(8) as u64);
    ctx.shape("mflags", long as u64 | (mb as u64) << 1 | (neg as u64) << 2);
    ctx.shape("comp", spec.compression as u64);
    ctx.shape("opts", spec.opts.skip_frames as u64 | (spec.opts.compute_hash as u64) << 1);
    ctx.probe_if(spec.opts.skip_frames, "metadata read with skip_frames");
    ctx.probe_if(md >= 32, "metadata nested 32+ levels");
    ctx.probe_if(count_maps(m.metadata.as_deref().unwrap_or(&[])) > 128, "more than 128 maps in one metadata tree");
    ctx.probe_if(long, "metadata string of 200+ bytes");
    ctx.probe_if(mb, "multi-byte UTF-8 in metadata");
    ctx.probe_if(neg, "negative int32 in metadata");
    prelude(spec.knob("prelude"), spec.seed, &m, ctx);
    let want = tree_json_string(&m.metadata);
    let game = if md > 127 {
        // deeper than any tree the formats are required to carry: refusal is fine
        ctx.probe("metadata nested beyond 127 levels");
        let edges = m.edges();
        let mut ro = read_slp_noopts(&m.bytes, &spec.stream, &edges);
        note_read(ctx, &mut ro);
        match ro.res {
            Res::Ok(g) => g,
            Res::Err(..) => {
                ctx.skip("reader refused a metadata tree nested beyond 127 levels (allowed)");
                return Ok(());
            }
            Res::Caught(c) => return Err(caught_violation(P, "slippi::read", &c)),
        }
    } else {
        let Some(g) = s1_read(P, spec, &m, ctx, spec.opts != OptsSpec::default())? else { return Ok(()) };
        g
    };
    ctx.probe_if(!spec.recorder.extras.unknown.is_empty(), "unknown events after Game End, inside the raw element, before the metadata");
    // 1. parsed tree == model tree, order included
    let got = json_of(&game.metadata);
    if got != want {
        return Err(Violation::new(P, "field-mismatch", "metadata(read)", format!("parsed {} but the recorder wrote {}", crate::report::short(&got, 160), crate::report::short(&want, 160))));
    }
    ctx.check();
    // 2. written tail bytes == recorded tail bytes
    let wo = write_slp(&game, &spec.sink);
    note_write(ctx, &wo);
    if wo.failed {
        return match wo.res {
            Res::Ok(()) => Err(Violation::new(P, "swallowed-io-error", "slippi::write", format!("the sink failed after {} bytes but slippi::write returned Ok (the metadata block is missing or cut short)", wo.data.len()))),
            Res::Err(..) => {
                ctx.probe("sink full: writer reported the error");
                Ok(())
            }
            Res::Caught(c) => Err(caught_violation(P, "slippi::write", &c)),
        };
    }
    expect_ok(P, "slippi::write", wo.res)?;
    let tail = &m.bytes[m.raw_end..];
    if !wo.data.ends_with(tail) {
        return Err(Violation::new(P, "bytes-differ", "metadata(write)", format!("the written file does not end with the recorded {}-byte metadata block", tail.len())));
    }
    ctx.check();
    // 3. archive leg
    let archive_sink = SinkSpec { enospc_after: None, ..spec.sink.clone() };
    let wz = write_slpp(game, &archive_sink, spec.compression);
    note_write(ctx, &wz);
    if is_o7(m.v, &wz.res) {
        ctx.skip("archive leg: versions 3.0-3.6 cannot be written as .slpp (known finding of C02)");
        ctx.rep.nontrivial = m.metadata.is_some();
        return Ok(());
    }
    expect_ok(P, "peppi::write", wz.res)?;
    let ar = Archive::open(&wz.data).map_err(|e| Violation::new(P, "layout", "archive", e))?;
    match ar.get("metadata.json") {
        None => return Err(Violation::new(P, "layout", "metadata.json", "entry missing")),
        Some(b) => {
            let v: serde_json::Value = serde_json::from_slice(b).map_err(|e| Violation::new(P, "json-mismatch", "metadata.json", format!("not valid JSON: {}", e)))?;
            if m.metadata.is_some() && v.to_string() != want {
                return Err(Violation::new(P, "json-mismatch", "metadata.json", format!("stored {} but the recorder wrote {}", crate::report::short(&v.to_string(), 160), crate::report::short(&want, 160))));
            }
            ctx.check();
        }
    }
    for skip in [false, true] {
        let mut r2 = read_slpp(&wz.data, &spec.stream2, skip);
        note_read(ctx, &mut r2);
        let g2 = expect_ok(P, if skip { "peppi::read(skip_frames)" } else { "peppi::read" }, r2.res)?;
        let got2 = json_of(&g2.metadata);
        if got2 != want {
            return Err(Violation::new(P, "field-mismatch", if skip { "metadata(.slpp, skip_frames)" } else { "metadata(.slpp)" }, format!("after .slpp {} but the recorder wrote {}", crate::report::short(&got2, 160), crate::report::short(&want, 160))));
        }
        ctx.check();
    }
    ctx.rep.nontrivial = m.metadata.as_ref().map_or(true, |t| !t.is_empty());
    Ok(())
}

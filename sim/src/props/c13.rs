//! C13 — the per-frame row view equals the columns (finished: S1; in progress: S2).

use super::common::*;
use crate::gen::{self, GenCfg};
use crate::prng::Rng;
use crate::recorder;
use crate::report::{guarded, Ctx, Violation};
use crate::s2;
use crate::spec::*;
use crate::Tier;
use peppi::game::Game as GameTrait;

const P: &str = "C13";

pub fn gen(seed: u64, tier: Tier) -> ScenarioSpec {
    let mut rng = Rng::new(seed);
    let cfg = GenCfg { allow_large: tier == Tier::Thorough, min_frames: 1, ..Default::default() };
    let rec = gen::gen_recorder(&mut rng, &cfg);
    let mut rec = rec;
    // rare: more than 65 536 item rows in one game (the flat item columns are indexed by row)
    if crate::layout::gte((rec.version[0], rec.version[1]), (3, 0)) && rng.chance(1, if tier == Tier::Thorough { 1500 } else { 3000 }) {
        let n = 2300 + rng.usize_below(400);
        let present = rec.frames.first().map_or(0b01, |f| f.present);
        let pseed = rng.next_u64();
        rec.frames = (0..n).map(|k| FrameSpec { id: -123 + k as i32, present, items: 28 + (k % 5) as u16, pseed: crate::prng::mix(pseed, k as u64) }).collect();
        rec.gecko = None;
        rec.extras = Extras::default();
    }
    let len = gen::approx_len(&rec);
    let live = rng.chance(1, 2);
    let mut spec = gen::base_spec(P, if live { "S2" } else { "S1" }, seed, rec);
    spec.stream = gen::gen_stream(&mut rng, len, true);
    spec.compression = *rng.pick(&[Compression::None, Compression::Lz4, Compression::Zstd]);
    if !live && rng.chance(1, 3) {
        spec.knobs.insert("via_slpp".into(), 1);
    }
    if live {
        spec.api = Api::Incremental;
        if rng.chance(1, 2) {
            // the connection may drop (the reader runs dry, most interestingly between two events of one
            // frame) and the application carries on from bytes_read(): the rows it sees afterwards are
            // still the rows of the columns
            spec.live = Some(gen_live(&mut rng, len, 12));
            spec.knobs.insert("resume".into(), 1);
        }
    }
    spec.knobs.insert("prelude".into(), gen_prelude(&mut rng, &[1, 4, 5], 8));
    // the order in which an application asks for rows: forward, backward, random with repeats, or two games
    // of the same shape walked side by side on one thread (as a comparison tool does)
    spec.knobs.insert("walk".into(), match rng.below(8) { 0..=3 => 0, 4 => 1, 5 => 2, 6 => 3, _ => 4 });
    spec.knobs.insert("walk_seed".into(), (rng.next_u64() >> 1) as i64);
    spec
}

pub fn run(spec: &ScenarioSpec, ctx: &mut Ctx) -> Result<(), Violation> {
    let m = recorder::build(&spec.recorder);
    ctx.rep.sim_time_ns += m.sim_time_ns();
    shape_of_model(ctx, &m, spec);
    prelude(spec.knob("prelude"), spec.seed, &m, ctx);
    ctx.shape("api", (spec.api == Api::Incremental) as u64);
    if spec.api == Api::Incremental {
        return s2::run(spec, &m, ctx, P, s2::Flags { model_rows: false, row_view: true, protocol: false, final_equiv: false });
    }
    let Some(game) = s1_read(P, spec, &m, ctx, false)? else { return Ok(()) };
    // the record view is reached through the Game trait: its row count is the number of rows
    let tlen = guarded(|| GameTrait::len(&game)).map_err(|c| caught_violation(P, "Game::len", &c))?;
    if tlen != game.frames.len() {
        return Err(Violation::new(P, "row-count", "Game::len", format!("Game::len() says {} but the id column has {} rows (ids {:?}..)", tlen, game.frames.len(), game.frames.id.values().iter().take(6).collect::<Vec<_>>())));
    }
    ctx.check();
    let walk = spec.knob("walk");
    let mut wr = Rng::new(spec.knob("walk_seed") as u64);
    let n_rows = game.frames.len();
    let check = |g: &peppi::game::immutable::Game, r: usize, ctx: &mut Ctx, tag: &str| -> Result<(), Violation> {
        let fr = guarded(|| g.frame(r)).map_err(|c| caught_violation(P, "Game::frame", &c))?;
        let n = s2::check_row_view(&g.frames, r, &fr, m.v).map_err(|f| {
            let mut v = fail_v(P, f);
            if !tag.is_empty() {
                v.site = format!("{} {}", tag, v.site);
            }
            v
        })?;
        ctx.checks(n);
        Ok(())
    };
    match walk {
        1 => {
            ctx.probe("rows asked for in backward order");
            for r in (0..n_rows).rev() {
                check(&game, r, ctx, "backward-walk")?;
            }
        }
        2 => {
            ctx.probe("rows asked for in random order with repeats");
            for _ in 0..(n_rows + n_rows / 2) {
                let r = wr.usize_below(n_rows.max(1));
                if r < n_rows {
                    check(&game, r, ctx, "random-walk")?;
                }
            }
        }
        3 | 4 => {
            // a second game of the same shape but with different item counts and payloads
            let mut rec_b = spec.recorder.clone();
            rec_b.start_pseed ^= 0xB0B;
            for (k, f) in rec_b.frames.iter_mut().enumerate() {
                f.items = ((f.items as usize * 2 + 1 + k) % 5) as u16;
                f.pseed = crate::prng::mix(f.pseed, 0xB);
            }
            let mb = recorder::build(&rec_b);
            let gb = crate::pipeline::read_slp_noopts(&mb.bytes, &StreamSpec::default(), &[]);
            match gb.res {
                crate::pipeline::Res::Ok(gb) => {
                    ctx.probe("two games walked side by side on one thread");
                    let nb = gb.frames.len();
                    let steps = n_rows.max(nb);
                    for r in 0..steps {
                        let (ra, rb) = if walk == 3 { (r, r + 1) } else { (wr.usize_below(n_rows.max(1)), wr.usize_below(nb.max(1))) };
                        if ra < n_rows {
                            check(&game, ra, ctx, "side-by-side(a)")?;
                        }
                        if rb < nb {
                            check(&gb, rb, ctx, "side-by-side(b)")?;
                        }
                    }
                    // and whatever was skipped above
                    for r in 0..n_rows {
                        check(&game, r, ctx, "")?;
                    }
                }
                _ => {
                    ctx.skip("second game could not be read");
                    for r in 0..n_rows {
                        check(&game, r, ctx, "")?;
                    }
                }
            }
        }
        _ => {
            for r in 0..n_rows {
                check(&game, r, ctx, "")?;
            }
        }
    }
    // the finished representation also comes out of the .slpp reader (Arrow import): same contract
    if spec.knob("via_slpp") != 0 {
        let wz = crate::pipeline::write_slpp(game, &SinkSpec::default(), spec.compression);
        if is_o7(m.v, &wz.res) {
            ctx.skip("versions 3.0-3.6 cannot be written as .slpp (known finding of C02)");
        } else if let crate::pipeline::Res::Ok(()) = wz.res {
            if let crate::pipeline::Res::Ok(g2) = crate::pipeline::read_slpp(&wz.data, &StreamSpec::default(), false).res {
                for r in 0..g2.frames.len() {
                    let fr = guarded(|| g2.frame(r)).map_err(|c| caught_violation(P, "Game::frame(after .slpp)", &c))?;
                    let n = s2::check_row_view(&g2.frames, r, &fr, m.v).map_err(|f| {
                        let mut v = fail_v(P, f);
                        v.site = format!("after-slpp {}", v.site);
                        v
                    })?;
                    ctx.checks(n);
                }
                ctx.probe("row view of a game imported from Arrow");
            } else {
                ctx.skip("archive could not be read back (owned by C02)");
            }
        } else {
            ctx.skip("archive could not be written (owned by C02)");
        }
    }
    ctx.rep.nontrivial = !m.occs.is_empty();
    Ok(())
}

//! C13 — the per-frame row view equals the columns (finished: S1; in progress: S2).

use super::common::*;
use crate::gen::{self, GenCfg};
use crate::prng::Rng;
use crate::recorder;
use crate::report::{guarded, Ctx, Violation};
use crate::s2;
use crate::spec::*;
use crate::Tier;
use peppi::game::Game as GameTrait;

const P: &str = "C13";

pub fn gen(seed: u64, tier: Tier) -> ScenarioSpec {
    let mut rng = Rng::new(seed);
    let cfg = GenCfg { allow_large: tier == Tier::Thorough, min_frames: 1, ..Default::default() };
    let rec = gen::gen_recorder(&mut rng, &cfg);
    let len = gen::approx_len(&rec);
    let live = rng.chance(1, 2);
    let mut spec = gen::base_spec(P, if live { "S2" } else { "S1" }, seed, rec);
    spec.stream = gen::gen_stream(&mut rng, len, true);
    if live {
        spec.api = Api::Incremental;
        if rng.chance(1, 2) {
            spec.live = Some(gen_live(&mut rng, len, 0));
        }
    }
    spec
}

pub fn run(spec: &ScenarioSpec, ctx: &mut Ctx) -> Result<(), Violation> {
    let m = recorder::build(&spec.recorder);
    ctx.rep.sim_time_ns += m.sim_time_ns();
    shape_of_model(ctx, &m, spec);
    ctx.shape("api", (spec.api == Api::Incremental) as u64);
    if spec.api == Api::Incremental {
        return s2::run(spec, &m, ctx, P, s2::Flags { model_rows: false, row_view: true, protocol: false, final_equiv: false });
    }
    let Some(game) = s1_read(P, spec, &m, ctx, false)? else { return Ok(()) };
    for r in 0..game.frames.len() {
        let fr = guarded(|| game.frame(r)).map_err(|c| caught_violation(P, "Game::frame", &c))?;
        let n = s2::check_row_view(&game.frames, r, &fr, m.v).map_err(|f| fail_v(P, f))?;
        ctx.checks(n);
    }
    ctx.rep.nontrivial = !m.occs.is_empty();
    Ok(())
}

//! Per-property scenario generators and oracles.

pub mod common;
pub mod c01;
pub mod c03;
pub mod c04;
pub mod c12;
pub mod c13;

use crate::report::{Ctx, RunReport, Violation};
use crate::spec::ScenarioSpec;
use crate::Tier;

pub const CLAIMED: &[&str] = &["C01", "C03", "C04", "C12", "C13"];

/// Number of runs in the quick tier (thorough is wall-clock budgeted).
pub fn quick_runs(prop: &str) -> u64 {
    match prop {
        "C01" => 30_000,
        _ => 10_000,
    }
}

pub fn gen(prop: &str, seed: u64, tier: Tier) -> ScenarioSpec {
    match prop {
        "C01" => c01::gen(seed, tier),
        "C03" => c03::gen(seed, tier),
        "C04" => c04::gen(seed, tier),
        "C12" => c12::gen(seed, tier),
        "C13" => c13::gen(seed, tier),
        _ => panic!("unknown property {}", prop),
    }
}

pub struct Meta {
    pub level: &'static str,
    pub rule: &'static str,
    pub states_measure: &'static str,
    pub assumptions: Vec<&'static str>,
}

pub const COMMON_ASSUMPTIONS: &[&str] = &[
    "the recorder reference model and its hand-transcribed layout table (DESIGN Appendix A) describe the Slippi spec correctly",
    "well-formed means the envelope of DESIGN section 3",
    "a clean batch is evidence, not proof: schedules, histories and faults are sampled from one seed",
];

pub fn meta(prop: &str) -> Meta {
    let mut assumptions: Vec<&'static str> = COMMON_ASSUMPTIONS.to_vec();
    let (level, rule, states): (&str, &str, &str) = match prop {
        "C01" => (
            "exploration",
            "each evaluation = one generated recording (version x ports x frame history x field patterns x gecko x end x metadata) read through a fragmenting/interrupting stream and written through a short-writing sink; distinct = distinct shape signature (version class, port/ICs pattern, absence class, rollback, item class, gecko class, end variant, metadata class, size class, read and write schedule mode); non-trivial = at least one frame AND at least one short read/write or Interrupted actually fired",
            "not tracked for this property (one-shot API)",
        ),
        _ => ("exploration", "see DESIGN.md", "n/a"),
    };
    let _ = &mut assumptions;
    Meta { level, rule, states_measure: states, assumptions }
}

fn dispatch(spec: &ScenarioSpec, ctx: &mut Ctx) -> Result<(), Violation> {
    match spec.property.as_str() {
        "C01" => c01::run(spec, ctx),
        "C03" => c03::run(spec, ctx),
        "C04" => c04::run(spec, ctx),
        "C12" => c12::run(spec, ctx),
        "C13" => c13::run(spec, ctx),
        p => panic!("unknown property {}", p),
    }
}

/// Execute one scenario. Pure function of the spec.
pub fn run(spec: &ScenarioSpec) -> RunReport {
    let mut ctx = Ctx::new();
    // a panic inside the harness itself (not inside a guarded peppi call) is a harness error
    let r = crate::report::guarded(|| dispatch(spec, &mut ctx));
    match r {
        Ok(Ok(())) => {}
        Ok(Err(v)) => ctx.rep.violation = Some(v),
        Err(c) => {
            let msg = match c {
                crate::report::Caught::Panic { msg, loc } => format!("harness panic at {}: {}", loc, msg),
                crate::report::Caught::NoProgress(m) => format!("unguarded no-progress: {}", m),
            };
            ctx.rep.violation = Some(Violation::new(&spec.property, "harness-error", "harness", msg));
        }
    }
    if let Some(v) = &ctx.rep.violation {
        ctx.rep.digest = crate::prng::mix_str(ctx.rep.digest, &v.sig());
    }
    ctx.rep
}

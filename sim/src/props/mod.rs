//! Per-property scenario generators and oracles.

pub mod common;
pub mod c01;
pub mod c02;
pub mod c08;
pub mod c09;
pub mod c10;
pub mod c11;
pub mod c16;
pub mod c17;
pub mod c18;
pub mod c03;
pub mod c04;
pub mod c05;
pub mod c06;
pub mod c07;
pub mod c12;
pub mod c13;

use crate::report::{Ctx, RunReport, Violation};
use crate::spec::ScenarioSpec;
use crate::Tier;

pub const CLAIMED: &[&str] = &["C01", "C02", "C03", "C04", "C05", "C06", "C07", "C08", "C09", "C10", "C11", "C12", "C13", "C16", "C17", "C18"];

/// Number of runs in the quick tier (thorough is wall-clock budgeted).
pub fn quick_runs(prop: &str) -> u64 {
    match prop {
        "C01" => 150_000,
        "C02" => 30_000,
        "C03" => 200_000,
        "C04" => 50_000,
        "C05" => 300_000,
        "C06" => 400_000,
        "C07" => 160,
        "C08" => 80_000,
        "C09" => 100_000,
        "C10" => 30_000,
        "C11" => 20_000,
        "C12" => 30_000,
        "C13" => 100_000,
        "C16" => 40_000,
        "C17" => 100_000,
        "C18" => 25_000,
        _ => 10_000,
    }
}

/// Chunk size for the time-budgeted tier (small for expensive runs so the deadline is honoured).
pub fn thorough_chunk(prop: &str) -> u64 {
    match prop {
        "C07" => 2,
        "C02" | "C10" | "C11" | "C12" | "C18" => 32,
        _ => 128,
    }
}

pub fn gen(prop: &str, seed: u64, tier: Tier) -> ScenarioSpec {
    let mut spec = gen_inner(prop, seed, tier);
    // the embedding application's logger configuration is one more drawn dimension
    spec.log_level = match crate::prng::mix(seed, 0x106) % 20 {
        0..=9 => 0,
        10..=16 => 1,
        17..=18 => 2,
        _ => 3,
    };
    // ... and so is the reader's debug dump option (one scenario in 24)
    spec.debug_dump = crate::prng::mix(seed, 0x107) % 24 == 0;
    spec
}

fn gen_inner(prop: &str, seed: u64, tier: Tier) -> ScenarioSpec {
    match prop {
        "C01" => c01::gen(seed, tier),
        "C07" => c07::gen(seed, tier),
        "C06" => c06::gen(seed, tier),
        "C18" => c18::gen(seed, tier),
        "C17" => c17::gen(seed, tier),
        "C16" => c16::gen(seed, tier),
        "C11" => c11::gen(seed, tier),
        "C10" => c10::gen(seed, tier),
        "C09" => c09::gen(seed, tier),
        "C08" => c08::gen(seed, tier),
        "C02" => c02::gen(seed, tier),
        "C03" => c03::gen(seed, tier),
        "C04" => c04::gen(seed, tier),
        "C05" => c05::gen(seed, tier),
        "C12" => c12::gen(seed, tier),
        "C13" => c13::gen(seed, tier),
        _ => panic!("unknown property {}", prop),
    }
}

pub struct Meta {
    pub level: &'static str,
    pub rule: &'static str,
    pub states_measure: &'static str,
    pub assumptions: Vec<&'static str>,
}

pub const COMMON_ASSUMPTIONS: &[&str] = &[
    "the recorder reference model and its hand-transcribed layout table (DESIGN Appendix A) describe the Slippi spec correctly",
    "well-formed means the envelope of DESIGN section 3",
    "a clean batch is evidence, not proof: schedules, histories and faults are sampled from one seed",
];

pub fn meta(prop: &str) -> Meta {
    let mut assumptions: Vec<&'static str> = COMMON_ASSUMPTIONS.to_vec();
    let s2_states = "distinct abstract parser states visited: version class x framing regime x last event kind x characters pending (pre seen, post not yet) in the open frame x splitter accumulating x end seen x frame open";
    let none = "not tracked for this property (one-shot API only)";
    let (level, rule, states): (&str, &str, &str) = match prop {
        "C01" => (
            "exploration",
            "each evaluation = one generated recording (version x ports/ICs x frame history with rollbacks and absences x boundary-biased field patterns x gecko x end variant x metadata) read through a fragmenting/interrupting stream and written back through a short-writing sink; oracle: bytes written == bytes recorded. distinct = distinct shape signature (version class, port/ICs pattern, absence class, rollback, item class, gecko class, end variant, metadata class, size class, read and write schedule mode); non-trivial = at least one frame AND at least one short read/write or Interrupted actually fired",
            none,
        ),
        "C02" => (
            "exploration",
            "each evaluation = one recording -> slippi::read (hash on/off) -> peppi::write (none/LZ4/ZSTD, short-writing sink) -> peppi::read (fragmenting stream) -> slippi::write, with the statement's corners (no frames, no metadata, no end, no gecko, 3.0-3.6) forced at 5 % each, and rare classes: more than 65 536 frames, metadata above 1 MiB, an idle recording of 24 000-64 000 frames in which every event repeats the previous one; 1 run in 10 fills the sink (then peppi::write must return Err); oracle: final bytes == recorded bytes, hash and quirks unchanged. distinct = shape signature incl. compression and hash option; every completed evaluation is non-trivial (the archive leg always runs)",
            none,
        ),
        "C03" => (
            "exploration",
            "each evaluation = one recording whose version is drawn round-robin over all 25 layout gates and their predecessors, every field filled with fresh random or boundary bits, parsed one-shot (70 %) or incrementally (30 %); oracle: every column cell == bits at the independent table's offset, Option column present iff version >= introducing version. distinct = shape signature incl. version class, API, special-pattern rate; non-trivial = at least one frame",
            s2_states,
        ),
        "C04" => (
            "exploration",
            "each evaluation = one recorded history (ids with rollbacks/jumps, per-occurrence presence of every character incl. forced absences in first/middle/last occurrence, 0..15 items) parsed incrementally with the parser state compared to the model after EVERY event (50 %) or one-shot with the final state compared (50 %); oracle: ids, validity bits, values-in-row, item grouping, column lengths. distinct = shape signature; non-trivial = at least two occurrences (one-shot) or a deviating schedule (incremental)",
            s2_states,
        ),
        "C05" => (
            "exploration",
            "each evaluation = one Game Start / Game End pair of a drawn length class, port occupancy/type pattern (human/CPU/demo/empty/garbage type byte, gaps), teams flag and random mapped bytes inside the reader's domain; oracle: every typed field and the JSON rendering == values at the independent offsets, optionals present iff the block is long enough. distinct = (version class, type byte pattern of the 4 ports, teams, start length, end length, schedule); all evaluations non-trivial",
            none,
        ),
        "C06" => (
            "exploration",
            "each evaluation = a valid recording damaged by a swarm-drawn subset of fault kinds (event drop/dup/swap, wrong frame id/port/follower, event illegal for the version, payload-table edits, splitter edits, metadata edits incl. 200 000-level nesting, raw-length edits, early Game End, random bytes; disk cut/torn/lost/zeroed/flip/garbage; hard read error at a drawn call; seek error) read one-shot under skip x hash or through the README's incremental loop; oracle: returns Ok or Err (no panic, abort, stack overflow, no-progress), and a hard stream error never ends in Ok. distinct = shape signature incl. the multiset of fault kinds that fired and the option/API combination; non-trivial = at least one fault fired",
            none,
        ),
        "C07" => (
            "fault_enumeration",
            "each evaluation = one finished recording for which EVERY proper prefix (files <= 3000 bytes in quick, <= 40 000 in thorough; otherwise all event boundaries +-2, 300/3000 random offsets, head and tail) is read with and without skip-frames, then its .slpp (drawn compression) cut at every 512-block boundary +-2, every entry end, every Arrow IPC message boundary, the last 600 bytes and 300/4000 random offsets (all offsets in thorough up to 80 000 bytes); 1 recording in 60 (quick) / 150 (thorough) has more than 65 536 frames and is cut only at the first/last event boundaries, every entry end, every IPC message boundary +-2, head, tail and a few dozen random offsets; oracle: .slp prefix -> Err; .slpp prefix -> Err or exactly the uncut game; never a panic or a stalled read. crash points are counted in faults_fired; distinct = shape signature of the file; every evaluation is non-trivial",
            none,
        ),
        "C08" => (
            "exploration",
            "each evaluation = a recording plus (a) 1-6 unknown event codes of sizes 1..600 inserted at drawn event boundaries after Game Start (between splitter blocks and inside frames included) (one unknown code in five is delivered through Message Splitter blocks from 3.3 on, never inside another split message) or (b) a version above 3.16 with 1..200 extra trailing bytes on known events; oracle: differential against the twin recording without the extras (start, end, metadata, gecko, every column) and against the model; incremental runs step over the extras with the per-event oracle. distinct = shape signature incl. extras class and API; non-trivial = extras actually present",
            s2_states,
        ),
        "C09" => (
            "exploration",
            "each evaluation = a tiny recording whose version triple is drawn around the ceiling (3.16.0, 3.16.1, 3.16.255, 3.17.0, 3.255.255, 4.0.0, 255.255.255, 2.255.255, 0.1.0, random) written by both writers; oracle: refusal (Err, never a panic) iff version > 3.16.0. distinct = distinct version triple x shape; all non-trivial",
            none,
        ),
        "C10" => (
            "exploration",
            "each evaluation = one finished recording read full and with skip-frames (hash off = seek path, hash on = copy path) under fragmentation and Interrupted, the skipped game written and re-read, then the same through .slpp (skip read, skipped game written as .slpp and read back); 1 run in 2500 (quick) / 6000 (thorough) instead reads a replay of 2^31..2^32-1 bytes from a sparse stream (a generated run of 65535-byte declared-but-unknown events before Game End), full and with skip-frames; oracle: start/end/metadata identical, zero frames with the right port layout. distinct = shape signature incl. hash option and compression; non-trivial = at least one frame",
            none,
        ),
        "C11" => (
            "exploration",
            "each evaluation = one recording read under 6 (quick) / 12 (thorough) schedules: whole, one byte at a time, a two-piece split at a drawn offset, then drawn fixed/random/event-edge fragmentations with Interrupted bursts, each x skip-frames x hash requested (also when read back from .slpp with and without skip_frames); 1 run in 2500 / 6000 instead hashes a replay of 2^31..2^32-1 bytes read from a sparse stream; oracle: hash == xxh3: + 16 hex of the one-shot XXH3-64 of the file bytes, reader position == file length, None when not requested, unchanged through .slpp. distinct = shape signature incl. the sequence of (schedule class, skip, hash) combinations; non-trivial = some read actually returned short or Interrupted",
            none,
        ),
        "C12" => (
            "exploration",
            "each evaluation = one recording parsed through parse_header / parse_start / parse_event* / parse_metadata over the live pipe (recorder and parser interleaved, 70 %, 15 % of them with a connection drop) or a fragmenting stream (30 %); oracle after EVERY call: returned code, bytes_read == raw bytes consumed == stream position - 15, row count == occurrences opened and never decreasing, every completed row == model row (all rows re-checked at random steps and at the end), and finally == the one-shot read of the same bytes. distinct = shape signature incl. live chunking and drop; non-trivial = at least one frame and a short read / Interrupted / recorder interleaving actually happened",
            s2_states,
        ),
        "C13" => (
            "exploration",
            "each evaluation = one recording; finished view: Game::frame(i) for every row vs the columns at i, rows requested in a drawn order (forward, backward, random with repeats, or two games of the same shape side by side on one thread); in-progress view: ParseState::frame(r) for every row as soon as it is completed, while the stream is still being fed; oracle: every field bitwise equal, version-absent fields None exactly below the introducing version, items == the offset-delimited slice. distinct = shape signature incl. API; non-trivial = at least one frame",
            s2_states,
        ),
        "C16" => (
            "exploration",
            "each evaluation = one recording with a generated metadata tree (strings 0-255 bytes incl. multi-byte UTF-8, int32 incl. MIN/-1/MAX, nested and empty maps, up to 40 keys, chains up to 64 deep, arbitrary key order, keys that serialisers use as private markers, many-maps and 127-deep trees) or none, first read under drawn skip_frames / compute_hash options; oracle: parsed tree == model tree in order, written tail bytes == recorded tail bytes, metadata.json (harness-parsed) == tree in order, tree after .slpp == tree, none stays none. distinct = shape signature incl. depth class and content flags; non-trivial = non-empty tree or none",
            none,
        ),
        "C17" => (
            "exploration",
            "each evaluation = one recording from the irregular recorder (unknown events anywhere, 1-40 junk bytes after Game End inside the raw element, random linear extension of pre-before-post inside every frame, end absent, metadata absent); oracle: declared raw length of the written file == length found by walking its own payload table, re-read equals the first read, second write == first write. distinct = shape signature incl. irregularity flags; non-trivial = some irregularity present",
            none,
        ),
        "C18" => (
            "exploration",
            "each evaluation = one recording written as .slpp twice (fragmenting sink / plain sink), the archive walked block by block by the harness, then mutated (0-5 unknown entries incl. long GNU names at drawn positions before frames.arrow; format version triple rewritten); oracle: signature at offset 0, entry order, every *.json byte-equal to the rendering of what peppi::read reconstructs, identical bytes for both writes (and across worker processes via the determinism audit), unknown entries ignored, version < 2.0.0 rejected. distinct = shape signature incl. compression, edit count, version class; all non-trivial",
            none,
        ),
        _ => ("exploration", "see DESIGN.md", "n/a"),
    };
    let _ = &mut assumptions;
    Meta { level, rule, states_measure: states, assumptions }
}

fn dispatch(spec: &ScenarioSpec, ctx: &mut Ctx) -> Result<(), Violation> {
    match spec.property.as_str() {
        "C01" => c01::run(spec, ctx),
        "C07" => c07::run(spec, ctx),
        "C06" => c06::run(spec, ctx),
        "C18" => c18::run(spec, ctx),
        "C17" => c17::run(spec, ctx),
        "C16" => c16::run(spec, ctx),
        "C11" => c11::run(spec, ctx),
        "C10" => c10::run(spec, ctx),
        "C09" => c09::run(spec, ctx),
        "C08" => c08::run(spec, ctx),
        "C02" => c02::run(spec, ctx),
        "C03" => c03::run(spec, ctx),
        "C04" => c04::run(spec, ctx),
        "C05" => c05::run(spec, ctx),
        "C12" => c12::run(spec, ctx),
        "C13" => c13::run(spec, ctx),
        p => panic!("unknown property {}", p),
    }
}

/// Execute one scenario. Pure function of the spec.
pub fn run(spec: &ScenarioSpec) -> RunReport {
    let mut ctx = Ctx::new();
    crate::worker::set_log_level(spec.log_level);
    ctx.shape("log", spec.log_level as u64);
    ctx.probe_if(spec.log_level > 0, "a logger is installed (Info or finer)");
    crate::pipeline::set_debug_dump(spec.debug_dump);
    ctx.shape("dbg", spec.debug_dump as u64);
    // a panic inside the harness itself (not inside a guarded peppi call) is a harness error
    let r = crate::report::guarded(|| dispatch(spec, &mut ctx));
    match r {
        Ok(Ok(())) => {}
        Ok(Err(v)) => ctx.rep.violation = Some(v),
        Err(c) => {
            let msg = match c {
                crate::report::Caught::Panic { msg, loc } => format!("harness panic at {}: {}", loc, msg),
                crate::report::Caught::NoProgress(m) => format!("unguarded no-progress: {}", m),
            };
            ctx.rep.violation = Some(Violation::new(&spec.property, "harness-error", "harness", msg));
        }
    }
    let dumps = crate::pipeline::take_debug_dumps();
    ctx.probe_if(dumps > 0, "a read ran with the Opts.debug dump option set");
    if let Some(v) = &ctx.rep.violation {
        ctx.rep.digest = crate::prng::mix_str(ctx.rep.digest, &v.sig());
    }
    ctx.rep
}

//! C12 — incremental parsing equals one-shot parsing for any fragmentation (family S2).

use super::common::*;
use crate::gen::{self, GenCfg};
use crate::prng::Rng;
use crate::recorder;
use crate::report::{Ctx, Violation};
use crate::s2;
use crate::spec::*;
use crate::Tier;

const P: &str = "C12";

pub fn gen(seed: u64, tier: Tier) -> ScenarioSpec {
    let mut rng = Rng::new(seed);
    let cfg = GenCfg { allow_large: tier == Tier::Thorough, ..Default::default() };
    let mut rec = gen::gen_recorder(&mut rng, &cfg);
    if rng.chance(1, 6) {
        // the payload table may declare events that never occur (a recorder built with support it does not use)
        rec.extras.phantom = super::c17::gen_phantom(&mut rng, (rec.version[0], rec.version[1]));
    }
    // declared events the library does not know are part of a well-formed stream too; some are larger than any
    // buffer a reader might use for "one event"
    if rng.chance(1, 10) {
        rec.extras.unknown = super::c17::gen_unknown(&mut rng, super::c17::events_hint(&rec), 2);
        if rng.chance(1, 3) {
            let code = 0x60 + rng.below(0x30) as u8;
            if !rec.extras.unknown.iter().any(|u| u.code == code) {
                let at = rng.below(super::c17::events_hint(&rec) as u64 + 1) as u32;
                rec.extras.unknown.push(UnknownEv { code, size: *rng.pick(&[4097u16, 6000, 8193, 20_000, 65_535]), after: vec![at], pseed: rng.next_u64(), split: false });
            }
        }
    }
    let len = gen::approx_len(&rec);
    let mut spec = gen::base_spec(P, "S2", seed, rec);
    spec.api = Api::Incremental;
    spec.stream = gen::gen_stream(&mut rng, len, true);
    if rng.chance(7, 10) {
        spec.live = Some(gen_live(&mut rng, len, 15));
        // half of the connection drops are placed inside an event chosen by kind (so that short
        // events such as Game End are hit as often as long ones), the rest anywhere in the file
        if let Some(l) = spec.live.as_mut() {
            if l.drop_at.is_some() && rng.chance(1, 2) {
                let m = recorder::build(&spec.recorder);
                let mut kinds: Vec<u8> = m.events.iter().skip(1).map(|e| e.code).collect();
                kinds.sort();
                kinds.dedup();
                let k = *rng.pick(&kinds);
                let inst: Vec<&recorder::Ev> = m.events.iter().skip(1).filter(|e| e.code == k).collect();
                let e = inst[rng.usize_below(inst.len())];
                l.drop_at = Some((e.off + 1 + rng.usize_below(e.len.max(2) - 1)) as u64);
            }
        }
    }
    if spec.live.as_ref().map_or(true, |l| l.drop_at.is_none()) && rng.chance(1, 10) {
        // the stream fails hard in the middle of the recording: what was completed before must be intact
        if rng.chance(1, 2) {
            spec.stream.hard_error_call = Some(rng.below(600) as u32);
        } else {
            // inside an event chosen by kind
            let m = recorder::build(&spec.recorder);
            let mut kinds: Vec<u8> = m.events.iter().skip(1).map(|e| e.code).collect();
            kinds.sort();
            kinds.dedup();
            let k = *rng.pick(&kinds);
            let inst: Vec<&recorder::Ev> = m.events.iter().skip(1).filter(|e| e.code == k).collect();
            let e = inst[rng.usize_below(inst.len())];
            spec.stream.hard_error_offset = Some((e.off + rng.usize_below(e.len)) as u64);
        }
        spec.stream.hard_error_kind = rng.below(6) as u8;
    }
    if rng.chance(1, 2) {
        // after a dropped connection the client reconnects and resumes from bytes_read()
        spec.knobs.insert("resume".into(), 1);
    }
    spec.knobs.insert("recheck_every".into(), *rng.pick(&[0i64, 0, 7, 50]));
    spec.knobs.insert("prelude".into(), gen_prelude(&mut rng, &[1, 4, 5], 8));
    spec
}

pub fn run(spec: &ScenarioSpec, ctx: &mut Ctx) -> Result<(), Violation> {
    let m = recorder::build(&spec.recorder);
    ctx.rep.sim_time_ns += m.sim_time_ns();
    shape_of_model(ctx, &m, spec);
    prelude(spec.knob("prelude"), spec.seed, &m, ctx);
    ctx.shape("live", match &spec.live { None => 0, Some(l) => 1 + matches!(l.chunking, Chunking::Frame) as u64 + 2 * matches!(l.chunking, Chunking::Flush(_)) as u64 + 4 * l.drop_at.is_some() as u64 });
    s2::run(spec, &m, ctx, P, s2::Flags { model_rows: true, row_view: false, protocol: true, final_equiv: true })
}

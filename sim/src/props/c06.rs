//! C06 — reading never panics, aborts or hangs, whatever bytes it is given (family S4).

use super::common::*;
use crate::gen::{self, GenCfg, SizeClass};
use crate::mutate;
use crate::pipeline::*;
use crate::prng::Rng;
use crate::recorder;
use crate::report::{guarded, Ctx, Violation};
use crate::simio::SimStream;
use crate::spec::*;
use crate::Tier;
use peppi::io::slippi::de;

const P: &str = "C06";

pub fn gen(seed: u64, tier: Tier) -> ScenarioSpec {
    let mut rng = Rng::new(seed);
    let mut cfg = GenCfg {
        size: Some(match rng.below(10) {
            0..=2 => SizeClass::Tiny,
            3..=8 => SizeClass::Small,
            _ => {
                if tier == Tier::Thorough {
                    SizeClass::Medium
                } else {
                    SizeClass::Small
                }
            }
        }),
        ..Default::default()
    };
    if rng.chance(1, 8) {
        cfg.max_version = None;
        cfg.force_version = Some([3 + rng.below(3) as u8, 17 + rng.below(200) as u8, 0]);
    }
    let rec = gen::gen_recorder(&mut rng, &cfg);
    let len = gen::approx_len(&rec);
    let nev = super::c17::events_hint(&rec) as u64;
    let mut spec = gen::base_spec(P, "S4", seed, rec);
    // swarm: which fault kinds are enabled at all in this run
    let t_enabled: Vec<&str> = mutate::TRANSPORT_KINDS.iter().copied().filter(|_| rng.chance(1, 2)).collect();
    let d_enabled: Vec<&str> = mutate::DISK_KINDS.iter().copied().filter(|_| rng.chance(1, 2)).collect();
    let nt = if t_enabled.is_empty() { 0 } else { rng.below(4) };
    for _ in 0..nt {
        let kind = *rng.pick(&t_enabled);
        // bias placement: right after Game Start, inside the first frames, or at the very end
        let at = match rng.below(4) {
            0 => rng.below(3),
            1 => nev.saturating_sub(rng.below(4)),
            _ => rng.below(nev.max(1) + 2),
        };
        spec.transport_faults.push(TransportFault { kind: kind.to_string(), at, arg: rng.below(64) as i64, pseed: rng.next_u64() });
    }
    let nd = if d_enabled.is_empty() { 0 } else { rng.below(3) };
    for _ in 0..nd {
        let kind = *rng.pick(&d_enabled);
        spec.disk_faults.push(DiskFault { kind: kind.to_string(), at: rng.below(len as u64 + 64), len: 1 + rng.below(2000), pseed: rng.next_u64() });
    }
    if rng.chance(1, 1500) {
        // rare and large: hundreds to tens of thousands of non-final splitter blocks in a row
        spec.transport_faults.push(TransportFault { kind: "splitter_flood".into(), at: 0, arg: rng.below(64) as i64, pseed: rng.next_u64() });
    }
    if rng.chance(1, 12) {
        spec.transport_faults.push(TransportFault { kind: "raw_bytes".into(), at: rng.below(4000), arg: rng.below(4) as i64, pseed: rng.next_u64() });
    }
    spec.stream = gen::gen_stream(&mut rng, len, true);
    if rng.chance(1, 4) {
        // hard error inside the operation: somewhere in the calls the read is expected to make
        let horizon = match spec.stream.mode {
            Frag::Whole | Frag::Two(_) => 3 * nev + 40,
            Frag::Edge(_) => nev + 20,
            _ => (len as u64).min(5000),
        };
        spec.stream.hard_error_call = Some(rng.below(horizon.max(1)) as u32);
        spec.stream.hard_error_kind = rng.below(6) as u8;
    }
    // the in-progress shape (raw length 0: the recorder has not finalised the file) is a first-class case
    if rng.chance(1, 8) && !spec.transport_faults.iter().any(|f| f.kind == "raw_len_edit") {
        spec.transport_faults.push(TransportFault { kind: "raw_len_edit".into(), at: 0, arg: 0, pseed: rng.next_u64() });
    }
    // hard error placed at a structural position of the file rather than at a call index
    if spec.stream.hard_error_call.is_none() && rng.chance(1, 4) {
        let m = recorder::build(&spec.recorder);
        let pick = rng.below(10);
        let off = match pick {
            0 => m.raw_end as u64,         // the byte that decides between metadata and the closing brace
            1 => m.raw_end as u64 + 1,
            2 => (m.raw_end as u64).saturating_sub(1),
            3 => rng.below(15),            // inside the header
            4 => m.bytes.len() as u64 - 1, // the final brace
            5..=7 => {
                let e = &m.events[rng.usize_below(m.events.len())];
                e.off as u64 + rng.below(3)
            }
            _ => rng.below(m.bytes.len() as u64),
        };
        spec.stream.hard_error_offset = Some(off);
        spec.stream.hard_error_kind = rng.below(6) as u8;
    }
    if rng.chance(1, 20) {
        spec.stream.seek_error = true;
    }
    if rng.chance(1, 4) {
        gen::gen_embedding(&mut rng, &mut spec.stream);
    }
    spec.opts = OptsSpec { skip_frames: rng.chance(1, 3), compute_hash: rng.chance(1, 3) };
    spec.api = if rng.chance(3, 10) { Api::Incremental } else { Api::OneShot };
    spec
}

/// The README's live-parsing loop, as a user would write it (errors propagate with `?`).
fn incremental(stream: &mut SimStream) -> Result<(), peppi::io::Error> {
    use std::io::Read;
    let size = de::parse_header(&mut *stream, None)? as usize;
    let mut state = de::parse_start(&mut *stream, None)?;
    loop {
        let code = de::parse_event(&mut *stream, &mut state, None)?;
        if code == de::Event::GameEnd as u8 || (size != 0 && state.bytes_read() >= size) {
            break;
        }
    }
    let mut b = [0u8; 1];
    stream.read_exact(&mut b)?;
    if b[0] == 0x55 {
        de::parse_metadata(&mut *stream, &mut state, None)?;
    }
    // touching the accumulated state must be safe too
    let _ = state.frames().id.values().len();
    Ok(())
}

pub fn run(spec: &ScenarioSpec, ctx: &mut Ctx) -> Result<(), Violation> {
    let m = recorder::build(&spec.recorder);
    shape_of_model(ctx, &m, spec);
    let mu = mutate::apply(&m, &spec.transport_faults, &spec.disk_faults);
    let mut fk = 0u64;
    for f in &mu.fired {
        ctx.fault(f, 1);
        fk = crate::prng::mix_str(fk, f);
    }
    ctx.shape("faults", fk);
    ctx.shape("opts", spec.opts.skip_frames as u64 | (spec.opts.compute_hash as u64) << 1 | ((spec.api == Api::Incremental) as u64) << 2);
    ctx.digest_bytes(&mu.bytes);
    let stage = if spec.api == Api::Incremental { "incremental" } else { "slippi::read" };
    let (outcome, hard, stats, digest, inter, oplog) = if spec.api == Api::Incremental {
        let mut stream = SimStream::new(&mu.bytes, &spec.stream, &[]);
        let r = guarded(|| incremental(&mut stream));
        let res: Res<()> = match r {
            Ok(Ok(())) => Res::Ok(()),
            Ok(Err(e)) => Res::Err(e.to_string(), None),
            Err(c) => Res::Caught(c),
        };
        (res, stream.hard_error_returned, stream.stats.clone(), stream.digest, std::mem::take(&mut stream.interleavings), std::mem::take(&mut stream.oplog))
    } else {
        let ro = read_slp(&mu.bytes, &spec.stream, &[], spec.opts);
        let res: Res<()> = match ro.res {
            Res::Ok(g) => {
                // the returned game must be usable: touch it
                let _ = g.frames.len();
                Res::Ok(())
            }
            Res::Err(e, k) => Res::Err(e, k),
            Res::Caught(c) => Res::Caught(c),
        };
        (res, ro.hard_error_returned, ro.stats, ro.digest, ro.interleavings, ro.oplog)
    };
    ctx.io(&stats);
    ctx.digest_u64(digest);
    ctx.rep.interleavings.extend(inter);
    ctx.rep.oplog = oplog;
    match &outcome {
        Res::Ok(()) => {
            ctx.probe("mutated input accepted (Ok)");
            if hard {
                return Err(Violation::new(P, "swallowed-io-error", stage, "the stream returned a hard I/O error to a read the parser issued, yet the result is Ok"));
            }
        }
        Res::Err(..) => ctx.probe("mutated input rejected (Err)"),
        Res::Caught(c) => return Err(caught_violation(P, stage, c)),
    }
    ctx.check();
    ctx.rep.nontrivial = !mu.fired.is_empty() || stats.hard_errors > 0;
    Ok(())
}

//! Shared scenario plumbing: shape signatures, offset classification, stats.

use crate::layout as L;
use crate::pipeline::{ReadOut, Res, WriteOut};
use crate::recorder::{Model, What};
use crate::report::{Caught, Ctx, Violation};
use crate::spec::*;

pub fn version_class(v: (u8, u8)) -> u64 {
    let mut k = 0;
    for (i, g) in L::GATES.iter().enumerate() {
        if L::gte(v, *g) {
            k = i;
        }
    }
    k as u64
}

pub fn frag_class(f: &Frag) -> u64 {
    match f {
        Frag::Whole => 0,
        Frag::One => 1,
        Frag::Fixed(_) => 2,
        Frag::Two(_) => 3,
        Frag::Random(_) => 4,
        Frag::Edge(d) => 5 + (*d + 1) as u64,
    }
}

/// Contribute the model's shape to the scenario signature and set reach probes.
pub fn shape_of_model(ctx: &mut Ctx, m: &Model, spec: &ScenarioSpec) {
    ctx.shape("vclass", version_class(m.v));
    let mut pp = 0u64;
    for p in &m.ports {
        pp |= 1 << p.port;
        if p.ics {
            pp |= 1 << (4 + p.port);
        }
    }
    ctx.shape("ports", pp);
    let mut leader_absent = false;
    let mut follower_absent = false;
    let mut all_absent = false;
    let mut rollback = false;
    let mut max_items = 0usize;
    let mut prev: Option<i32> = None;
    let mut absent_first = false;
    let mut absent_last = false;
    let mut rollback_over_absent = false;
    let nchars: usize = m.ports.iter().map(|p| 1 + p.ics as usize).sum();
    for (r, o) in m.occs.iter().enumerate() {
        let absent_here = o.chars.len() < nchars;
        for (slot, p) in m.ports.iter().enumerate() {
            if !o.chars.contains_key(&(slot, false)) {
                leader_absent = true;
                if m.ports.len() == 4 {
                    ctx.probe("absent leader in a 4-port game");
                }
            }
            if p.ics && !o.chars.contains_key(&(slot, true)) {
                follower_absent = true;
            }
        }
        if o.chars.is_empty() {
            all_absent = true;
        }
        if absent_here && r == 0 {
            absent_first = true;
        }
        if absent_here && r + 1 == m.occs.len() {
            absent_last = true;
        }
        if let Some(p) = prev {
            if o.id <= p {
                rollback = true;
                if absent_here {
                    rollback_over_absent = true;
                }
            }
        }
        prev = Some(o.id);
        max_items = max_items.max(o.items.len());
    }
    ctx.shape("absence", leader_absent as u64 | (follower_absent as u64) << 1 | (all_absent as u64) << 2);
    ctx.shape("rollback", rollback as u64);
    ctx.shape("items", match max_items { 0 => 0, 1..=3 => 1, _ => 2 });
    ctx.shape("gecko", match &m.gecko { None => 0, Some((b, a)) => if *a > 65535 { 3 } else if b.len() > 512 { 2 } else { 1 } });
    ctx.shape("end", match (m.end.is_some(), m.double_end) { (false, _) => 0, (true, false) => 1, (true, true) => 2 });
    ctx.shape("meta", match &m.metadata { None => 0, Some(t) if t.is_empty() => 1, Some(t) => if t.iter().any(|(_, n)| matches!(n, Node::Map(_))) { 3 } else { 2 } });
    ctx.shape("frames", match m.occs.len() { 0 => 0, 1..=3 => 1, 4..=40 => 2, 41..=1024 => 3, _ => 4 });
    ctx.shape("stream", frag_class(&spec.stream.mode));
    ctx.shape("sink", frag_class(&spec.sink.mode));
    ctx.probe_if(m.occs.is_empty(), "zero frames");
    ctx.probe_if(m.occs.len() > 1024, "more than 1024 rows (initial column capacity exceeded)");
    ctx.probe_if(leader_absent && !L::gte(m.v, (2, 2)), "absent character in a pre-2.2 file");
    ctx.probe_if(leader_absent, "leader absent in some occurrence");
    ctx.probe_if(follower_absent, "follower absent in some occurrence");
    ctx.probe_if(all_absent, "occurrence with no character at all");
    ctx.probe_if(absent_first, "character absent in the first occurrence");
    ctx.probe_if(absent_last, "character absent in the last occurrence");
    ctx.probe_if(rollback, "rollback (repeated / decreasing frame id)");
    ctx.probe_if(rollback_over_absent, "rollback across an absent-character frame");
    ctx.probe_if(max_items > 0, "items present");
    ctx.probe_if(m.gecko.as_ref().map_or(false, |g| g.0.len() > 512), "splitter block count > 1");
    ctx.probe_if(m.gecko.as_ref().map_or(false, |g| g.1 > 65535), "Gecko list longer than 65535 bytes");
    ctx.probe_if(m.gecko.as_ref().map_or(false, |g| g.1 % 512 == 0), "Gecko list an exact multiple of 512");
    ctx.probe_if(m.end.is_none(), "no Game End");
    ctx.probe_if(m.double_end, "doubled Game End");
    ctx.probe_if(m.metadata.is_none(), "no metadata");
    ctx.probe_if(m.ports.len() == 4 && m.ports.iter().any(|p| p.ics), "4 ports with Ice Climbers");
    ctx.probe_if(L::gte(m.v, (3, 0)) && !L::gte(m.v, (3, 7)), "version 3.0-3.6");
    ctx.probe_if(L::gte(m.v, (2, 2)) && !L::gte(m.v, (3, 0)), "version 2.2-2.x (frame start, no frame end)");
    ctx.probe_if(!L::gte(m.v, (2, 2)), "version < 2.2 (no frame start/end)");
}

/// Name the part of the file that contains absolute offset `off`.
pub fn classify_offset(m: &Model, off: usize) -> String {
    if off < 11 {
        return "file-signature".into();
    }
    if off < 15 {
        return "raw-length".into();
    }
    if off >= m.raw_end {
        return "metadata/tail".into();
    }
    for e in &m.events {
        if off >= e.off && off < e.off + e.len {
            return match &e.what {
                What::Payloads => "payload-table".into(),
                What::Start => "game-start".into(),
                What::Gecko { .. } => "gecko-block".into(),
                What::FStart => "frame-start".into(),
                What::Pre { .. } => "pre".into(),
                What::Post { .. } => "post".into(),
                What::Item { .. } => "item".into(),
                What::FEnd => "frame-end".into(),
                What::End { .. } => "game-end".into(),
                What::Unknown => "unknown-event".into(),
                What::SplitUnknown { .. } => "unknown-event-splitter-block".into(),
            };
        }
    }
    "raw-tail".into()
}

pub fn first_diff(a: &[u8], b: &[u8]) -> Option<usize> {
    let n = a.len().min(b.len());
    for i in 0..n {
        if a[i] != b[i] {
            return Some(i);
        }
    }
    if a.len() != b.len() {
        Some(n)
    } else {
        None
    }
}

pub fn note_read(ctx: &mut Ctx, ro: &mut ReadOut) {
    ctx.io(&ro.stats);
    ctx.digest_u64(ro.digest);
    ctx.rep.interleavings.append(&mut ro.interleavings);
    if ctx.rep.oplog.is_empty() {
        ctx.rep.oplog = std::mem::take(&mut ro.oplog);
    }
}

pub fn note_write(ctx: &mut Ctx, wo: &WriteOut) {
    ctx.io(&wo.stats);
    ctx.digest_u64(wo.digest);
    ctx.digest_bytes(&wo.data);
}

/// Turn a panic / no-progress capture into a violation of `prop` at `stage`.
pub fn caught_violation(prop: &str, stage: &str, c: &Caught) -> Violation {
    match c {
        Caught::Panic { msg, loc } => Violation::new(prop, "panic", format!("{}@{}", stage, loc), crate::report::short(msg, 200)),
        Caught::NoProgress(m) => Violation::new(prop, "no-progress", stage.to_string(), m.clone()),
    }
}

/// For a leg that must succeed: convert a non-Ok result into a violation.
pub fn expect_ok<T>(prop: &str, stage: &str, r: Res<T>) -> Result<T, Violation> {
    match r {
        Res::Ok(v) => Ok(v),
        Res::Err(e, _) => Err(Violation::new(prop, "unexpected-err", stage.to_string(), crate::report::short(&e, 200))),
        Res::Caught(c) => Err(caught_violation(prop, stage, &c)),
    }
}

/// The O7 signature: peppi::write cannot represent versions 3.0-3.6 (empty
/// Frame End struct). Owned by C02; other properties skip that leg.
pub fn is_o7<T>(v: (u8, u8), r: &Res<T>) -> bool {
    // (the same panic for a game with no occupied port is O7b; only C01/C02 draw such games)
    L::gte(v, (3, 0))
        && !L::gte(v, (3, 7))
        && matches!(r, Res::Caught(Caught::Panic { msg, .. }) if msg.contains("StructArray must contain at least one field"))
}

use crate::pipeline::{read_slp, read_slp_noopts};
use peppi::game::immutable::Game;

/// S1 first leg: read the recorded file through the scheduled stream. `Ok(None)` =
/// the read surfaced an injected Interrupted (allowed by the relaxed rule).
pub fn s1_read(prop: &str, spec: &ScenarioSpec, m: &Model, ctx: &mut Ctx, use_opts: bool) -> Result<Option<Game>, Violation> {
    let edges = m.edges();
    let mut ro = if use_opts { read_slp(&m.bytes, &spec.stream, &edges, spec.opts) } else { read_slp_noopts(&m.bytes, &spec.stream, &edges) };
    note_read(ctx, &mut ro);
    match ro.res {
        Res::Ok(g) => {
            ctx.check();
            Ok(Some(g))
        }
        Res::Err(e, k) => {
            if ro.interrupted_returned && k == Some(std::io::ErrorKind::Interrupted) {
                ctx.skip("read surfaced Interrupted (allowed)");
                return Ok(None);
            }
            Err(Violation::new(prop, "unexpected-err", "slippi::read", crate::report::short(&e, 200)))
        }
        Res::Caught(c) => Err(caught_violation(prop, "slippi::read", &c)),
    }
}

pub fn gen_live(rng: &mut crate::prng::Rng, approx_len: usize, drop_pct: u64) -> LiveSpec {
    let chunking = match rng.below(10) {
        0..=3 => Chunking::Event,
        4..=6 => Chunking::Frame,
        _ => Chunking::Flush(*rng.pick(&[1u32, 7, 64, 512, 4096])),
    };
    let chunking = match chunking {
        Chunking::Flush(n) if approx_len > 100_000 && n < 64 => Chunking::Flush(512),
        c => c,
    };
    let drop_at = if rng.below(100) < drop_pct { Some(rng.below(approx_len.max(1) as u64)) } else { None };
    LiveSpec { chunking, pseed: rng.next_u64(), drop_at }
}

pub fn fail_v(prop: &str, f: crate::oracle::Fail) -> Violation {
    Violation::new(prop, &f.0, f.1, f.2)
}


/// History prelude: an operation that FAILS because of an injected fault, executed on the same
/// thread right before the scenario proper. Nothing it touches may leak into later operations
/// (thread-local scratch buffers, pooled hashers, ...). `kind`: 1 = hashed read of a truncated
/// copy of the file, 2 = slippi::write into a sink that runs out of space, 3 = peppi::write into
/// a sink that runs out of space (biased to fail inside frames.arrow); 4-7: see the arms below.
pub fn prelude(kind: i64, seed: u64, m: &Model, ctx: &mut Ctx) {
    use crate::pipeline::*;
    let mut rng = crate::prng::Rng::new(seed ^ 0x9E1DE);
    match kind {
        1 => {
            let cut = if m.bytes.len() > 20 { 16 + rng.usize_below(m.bytes.len() - 16) } else { m.bytes.len() / 2 };
            // (half of them skip the frames: the cut then falls inside the region the reader jumps over)
            let ro = read_slp(&m.bytes[..cut], &StreamSpec::default(), &[], OptsSpec { skip_frames: rng.chance(1, 2), compute_hash: true });
            ctx.probe_if(ro.res.is_err(), "prelude: a hashed read failed (truncated) before the scenario");
            ctx.fault("prelude_failed_read", ro.res.is_err() as u64);
        }
        2 | 3 => {
            let g = match read_slp_noopts(&m.bytes, &StreamSpec::default(), &[]).res {
                Res::Ok(g) => g,
                _ => return,
            };
            if kind == 2 {
                let budget = rng.below(m.bytes.len().max(1) as u64);
                let wo = write_slp(&g, &SinkSpec { enospc_after: Some(budget), ..Default::default() });
                ctx.probe_if(wo.res.is_err(), "prelude: slippi::write failed (sink full) before the scenario");
                ctx.fault("prelude_failed_write", wo.res.is_err() as u64);
            } else {
                // learn the archive size from a clean write of a twin, then fail inside the last entry or anywhere
                let twin = match read_slp_noopts(&m.bytes, &StreamSpec::default(), &[]).res {
                    Res::Ok(g) => g,
                    _ => return,
                };
                let clean = write_slpp(twin, &SinkSpec::default(), Compression::None);
                if !clean.res.is_ok() {
                    return;
                }
                let total = clean.data.len() as u64;
                let budget = if rng.chance(2, 3) { total.saturating_sub(1024 + rng.below(2048.min(total.max(1)))) } else { rng.below(total.max(1)) };
                let wo = write_slpp(g, &SinkSpec { enospc_after: Some(budget), ..Default::default() }, Compression::None);
                ctx.probe_if(wo.res.is_err(), "prelude: peppi::write failed (sink full) before the scenario");
                ctx.fault("prelude_failed_write", wo.res.is_err() as u64);
            }
        }
        4 => {
            // a failing incremental parse (the stream ends inside an event) on this thread
            let cut = if m.bytes.len() > 40 { 30 + rng.usize_below(m.bytes.len() - 30) } else { m.bytes.len() / 2 };
            let data = &m.bytes[..cut];
            let mut st = crate::simio::SimStream::new(data, &StreamSpec::default(), &[]);
            let r = crate::report::guarded(|| -> Result<(), peppi::io::Error> {
                peppi::io::slippi::de::parse_header(&mut st, None)?;
                let mut state = peppi::io::slippi::de::parse_start(&mut st, None)?;
                loop {
                    peppi::io::slippi::de::parse_event(&mut st, &mut state, None)?;
                }
            });
            ctx.fault("prelude_failed_incremental_parse", matches!(r, Ok(Err(_))) as u64);
        }
        5 => {
            // a complete, successful read / write / archive round of a DIFFERENT game (other version, other
            // ports) right before: nothing memoised from it may colour what follows
            let cfg = crate::gen::GenCfg { size: Some(crate::gen::SizeClass::Tiny), ..Default::default() };
            let other = crate::gen::gen_recorder(&mut rng, &cfg);
            let om = crate::recorder::build(&other);
            if let Res::Ok(g) = read_slp(&om.bytes, &StreamSpec::default(), &[], OptsSpec { skip_frames: false, compute_hash: true }).res {
                let _ = write_slp(&g, &SinkSpec::default());
                let w = write_slpp(g, &SinkSpec::default(), Compression::None);
                if w.res.is_ok() {
                    let _ = read_slpp(&w.data, &StreamSpec::default(), false);
                }
                ctx.probe("prelude: a different game was processed successfully before the scenario");
            }
        }
        7 => {
            // the scenario is the second or third job of this thread: a LARGER game of the SAME version
            // went through every entry point first (hashed read, skip-frames read, both writers, both
            // archive reads), once or twice. Anything kept between calls (scratch buffers that are only
            // ever grown, cached layouts, counters, builders) is then longer/fuller than this scenario's
            // game needs.
            let size = if rng.chance(1, 4) { crate::gen::SizeClass::Medium } else { crate::gen::SizeClass::Small };
            let cfg = crate::gen::GenCfg { size: Some(size), force_version: Some(m.version), ..Default::default() };
            let mut other = crate::gen::gen_recorder(&mut rng, &cfg);
            if rng.chance(1, 2) && !m.ports.is_empty() {
                // the same ports as the scenario's game, with the Ice Climbers flags moved to other ports
                // (or toggled): anything memoised per (version, occupied ports) sees a near-twin first
                let mut ports = m.ports.clone();
                let n = ports.len();
                let flags: Vec<bool> = ports.iter().map(|p| p.ics).collect();
                let differs = n >= 2 && flags.iter().any(|f| *f) && !flags.iter().all(|f| *f);
                for (i, p) in ports.iter_mut().enumerate() {
                    p.ics = if differs { flags[(i + 1) % n] } else { !flags[i] };
                }
                other.ports = ports;
                for (k, f) in other.frames.iter_mut().enumerate() {
                    if k % 2 == 0 {
                        f.present = 0xFF;
                    }
                }
                ctx.probe("prelude: a near-twin (same version and ports, Ice Climbers elsewhere) was processed first");
            }
            let om = crate::recorder::build(&other);
            let slpp_ok = crate::layout::gte(m.v, (3, 7)) || !crate::layout::gte(m.v, (3, 0));
            let reps = 1 + rng.below(2);
            for _ in 0..reps {
                let _ = read_slp(&om.bytes, &StreamSpec::default(), &[], OptsSpec { skip_frames: true, compute_hash: rng.chance(1, 2) });
                if let Res::Ok(g) = read_slp(&om.bytes, &StreamSpec::default(), &[], OptsSpec { skip_frames: false, compute_hash: true }).res {
                    let _ = write_slp(&g, &SinkSpec::default());
                    if slpp_ok && !om.ports.is_empty() {
                        let w = write_slpp(g, &SinkSpec::default(), Compression::None);
                        if w.res.is_ok() {
                            let _ = read_slpp(&w.data, &StreamSpec::default(), false);
                            let _ = read_slpp(&w.data, &StreamSpec::default(), true);
                        }
                    }
                    ctx.probe("prelude: a larger game of the same version went through every entry point before the scenario");
                }
            }
            ctx.fault("prelude_larger_same_version", reps);
        }
        6 => {
            // a DAMAGED copy of the file is read first (its text fields are broken in ways the decoders
            // must reject): a decoder kept across calls must not carry anything over
            use crate::layout::gs;
            let mut b = m.bytes.clone();
            let so = m.events[1].off; // Game Start
            let slen = m.events[1].len;
            let put = |b: &mut Vec<u8>, off: usize, bytes: &[u8]| {
                if off + bytes.len() <= slen {
                    b[so + off..so + off + bytes.len()].copy_from_slice(bytes);
                }
            };
            match rng.below(5) {
                0 => put(&mut b, gs::NAME_TAG + 16 * rng.usize_below(4), &[0x82, 0x00]), // lone Shift-JIS lead byte
                1 => put(&mut b, gs::NETPLAY_NAME + 31 * rng.usize_below(4), &[b'a', 0x93, 0x00]),
                2 => put(&mut b, gs::CONNECT_CODE + 10 * rng.usize_below(4), &[0x81, 0x00]),
                3 => put(&mut b, gs::SLIPPI_UID + 29 * rng.usize_below(4), &[0xC3, 0x00]), // truncated UTF-8
                _ => put(&mut b, gs::NAME_TAG, &[0x83, 0x00]),
            }
            let ro = read_slp(&b, &StreamSpec::default(), &[], OptsSpec::default());
            ctx.probe_if(ro.res.is_err(), "prelude: a file with a damaged text field was rejected before the scenario");
            ctx.fault("prelude_damaged_read", 1);
        }
        _ => {}
    }
}

/// Draw a history prelude for a scenario (0 = none).
pub fn gen_prelude(rng: &mut crate::prng::Rng, kinds: &[i64], one_in: u64) -> i64 {
    if rng.chance(1, one_in) {
        let k = *rng.pick(kinds);
        // half of the "another game first" histories use a larger game of the same version (kind 7)
        if k == 5 && rng.chance(1, 2) {
            7
        } else {
            k
        }
    } else {
        0
    }
}


/// Generator half of the sparse-stream legs (C10, C11): a small recording whose payload table declares a
/// 65535-byte event of a code the library does not know; the run itself is generated by SparseStream.
pub fn gen_sparse(rng: &mut crate::prng::Rng, rec: &mut RecorderSpec) -> Vec<(&'static str, i64)> {
    let code = 0x60 + rng.below(0x40) as u8;
    rec.extras = Extras::default();
    rec.extras.phantom = vec![(code, 65535)];
    rec.irregular = Irregular::default();
    if let Some(g) = rec.gecko.as_mut() {
        g.len = g.len.min(3000);
    }
    vec![
        ("sparse_code", code as i64),
        // 32768 x 65536 = 2^31; 65535 x 65536 = 2^32 - 65536
        ("sparse_count", *rng.pick(&[32767i64, 32768, 32769, 33000, 40000, 65535, 65535])),
        ("sparse_sel", rng.below(1 << 30) as i64),
        ("sparse_chunk", *rng.pick(&[0i64, 0, 1 << 16, 8192 + 7, 1 << 20])),
    ]
}

pub struct SparseFile {
    /// bytes before the hole, with the header's raw length patched to include the hole
    pub head: Vec<u8>,
    /// offset in the model's bytes where the hole goes (tail = bytes[at..])
    pub at: usize,
    pub count: u64,
    pub code: u8,
    pub chunk: usize,
    pub old_raw: u64,
}

/// Run half: where the hole goes and what the header says. None for specs the generator never produces.
pub fn sparse_setup(spec: &ScenarioSpec, m: &Model) -> Option<SparseFile> {
    use crate::recorder::What;
    let code = spec.knob("sparse_code") as u8;
    if !spec.recorder.extras.phantom.contains(&(code, 65535)) || crate::layout::KNOWN_CODES.contains(&code) {
        return None;
    }
    let mut count = spec.knob("sparse_count").max(1) as u64;
    // the hole goes in front of one of the events after Game Start, up to and including Game End — never
    // after Game End: what follows Game End is buffered as a whole by design, and a 2 GiB buffer is beyond
    // the allocation cap this harness runs under, not a defect
    let first_end = m.events.iter().position(|e| matches!(e.what, What::End { .. })).unwrap_or(m.events.len());
    let mut spots: Vec<usize> = m.events.iter().take(first_end + 1).skip(2).map(|e| e.off).collect();
    if m.end.is_none() {
        spots.push(m.raw_end);
    }
    if spots.is_empty() {
        return None;
    }
    let at = spots[spec.knob("sparse_sel") as usize % spots.len()];
    let old_raw = (m.raw_end - crate::recorder::HEADER_LEN) as u64;
    while old_raw + count * 65536 > u32::MAX as u64 {
        count -= 1;
    }
    let mut head = m.bytes[..at].to_vec();
    head[11..15].copy_from_slice(&((old_raw + count * 65536) as u32).to_be_bytes());
    Some(SparseFile { head, at, count, code, chunk: spec.knob("sparse_chunk").max(0) as usize, old_raw })
}

//! C02 — .slp -> .slpp -> .slp is lossless under every compression option (S1 archive leg).

use super::common::*;
use crate::gen::{self, GenCfg, SizeClass};
use crate::pipeline::*;
use crate::prng::Rng;
use crate::recorder;
use crate::report::{Ctx, Violation};
use crate::spec::*;
use crate::Tier;

const P: &str = "C02";

pub fn gen(seed: u64, tier: Tier) -> ScenarioSpec {
    let mut rng = Rng::new(seed);
    let mut cfg = GenCfg { allow_large: tier == Tier::Thorough, ..Default::default() };
    // corners the statement names, each forced at >= 5 %
    let corner = rng.below(20);
    if corner == 0 {
        cfg.size = Some(SizeClass::Tiny);
    }
    if corner == 4 {
        let mi = rng.range(0, 6) as u8;
        cfg.force_version = Some([3, mi, rng.below(3) as u8]);
    }
    // rare but real: an untimed game longer than 65 536 frames; a metadata element of more than 1 MiB
    let huge = rng.chance(1, if tier == Tier::Thorough { 3000 } else { 12_000 });
    if huge {
        cfg.size = Some(SizeClass::Huge);
    }
    let mut rec = gen::gen_recorder(&mut rng, &cfg);
    if huge {
        // keep the huge game cheap otherwise
        rec.gecko = None;
        if rec.ports.len() > 2 {
            rec.ports.truncate(2);
        }
        for f in rec.frames.iter_mut() {
            f.items = 0;
        }
    }
    // an idle (paused, nothing moves) recording of many minutes: compresses to a few bytes per frame
    let idle = !huge && rng.chance(1, if tier == Tier::Thorough { 1500 } else { 4000 });
    if idle {
        let n = 24_000 + rng.usize_below(40_000);
        let pseed = rng.next_u64();
        let present = rec.frames.first().map_or(0b0101, |f| f.present);
        rec.frames = (0..n).map(|k| FrameSpec { id: -123 + k as i32, present, items: 0, pseed: crate::prng::mix(pseed, k as u64) }).collect();
        rec.idle = true;
        rec.gecko = None;
        rec.irregular = Irregular::default();
    }
    if rng.chance(1, if tier == Tier::Thorough { 2000 } else { 8000 }) {
        let n = 1_100_000 + rng.usize_below(400_000);
        rec.metadata = Some(gen::gen_big_tree(&mut rng, n));
    }
    match corner {
        0 => rec.frames.clear(),
        1 => rec.metadata = None,
        2 => rec.end = EndKind::None,
        3 => rec.gecko = None,
        _ => {}
    }
    // below 3.3 a Gecko list is just more declared events the version does not define; the reader keeps it
    if !crate::layout::gte((rec.version[0], rec.version[1]), (3, 3)) && rng.chance(1, 20) {
        rec.force_gecko = true;
        rec.gecko = Some(GeckoSpec { len: 1 + rng.below(1500) as u32, pseed: rng.next_u64() });
    }
    // the empty set of occupied ports: a recording nobody plays in (legal; before 2.2 its frames leave no bytes)
    if rng.chance(1, 60) {
        rec.ports.clear();
        if !crate::layout::gte((rec.version[0], rec.version[1]), (2, 2)) {
            rec.frames.clear();
        }
        for f in rec.frames.iter_mut() {
            f.present = 0;
        }
    }
    let len = gen::approx_len(&rec);
    let mut spec = gen::base_spec(P, "S1", seed, rec);
    spec.stream = gen::gen_stream(&mut rng, len, false);
    spec.stream2 = gen::gen_stream(&mut rng, len + 8192, false);
    spec.sink = gen::gen_sink(&mut rng, false);
    spec.opts.compute_hash = rng.chance(1, 2);
    spec.compression = *rng.pick(&[Compression::None, Compression::Lz4, Compression::Zstd]);
    spec.knobs.insert("prelude".into(), gen_prelude(&mut rng, &[1, 3, 5], 3));
    if rng.chance(1, 10) {
        // the disk fills up while the archive is being written
        spec.sink.enospc_after = Some(rng.below(2 * len as u64 + 12_000));
    }
    spec
}

pub fn run(spec: &ScenarioSpec, ctx: &mut Ctx) -> Result<(), Violation> {
    let m = recorder::build(&spec.recorder);
    ctx.rep.sim_time_ns += m.sim_time_ns();
    shape_of_model(ctx, &m, spec);
    ctx.shape("comp", spec.compression as u64);
    ctx.shape("hash", spec.opts.compute_hash as u64);
    ctx.probe_if(spec.recorder.idle, "idle recording of many minutes (compresses to a few bytes per frame)");
    ctx.probe(match spec.compression {
        Compression::None => "compression none",
        Compression::Lz4 => "compression LZ4",
        Compression::Zstd => "compression ZSTD",
    });
    prelude(spec.knob("prelude"), spec.seed, &m, ctx);
    let Some(g1) = s1_read(P, spec, &m, ctx, true)? else { return Ok(()) };
    let h1 = g1.hash.clone();
    let q1 = g1.quirks.map_or(false, |q| q.double_game_end);
    if spec.opts.compute_hash {
        let want = super::c11::expected_hash(&m.bytes);
        if h1.as_deref() != Some(want.as_str()) {
            // owned by C11; note and continue with whatever was reported
            ctx.skip("hash reported by the first read is not the file's XXH3 (owned by C11)");
        }
    }
    let wz = write_slpp(g1, &spec.sink, spec.compression);
    note_write(ctx, &wz);
    if wz.failed {
        // the sink reported "no space": the writer must pass that on, never claim success
        return match wz.res {
            Res::Ok(()) => Err(Violation::new(P, "swallowed-io-error", "peppi::write", format!("the sink failed after {} bytes but peppi::write returned Ok (an incomplete archive looks like a finished one)", wz.data.len()))),
            Res::Err(..) => {
                ctx.probe("sink full: writer reported the error");
                ctx.rep.nontrivial = true;
                Ok(())
            }
            Res::Caught(c) => Err(caught_violation(P, "peppi::write", &c)),
        };
    }
    expect_ok(P, "peppi::write", wz.res)?;
    ctx.check();
    let mut r2 = read_slpp(&wz.data, &spec.stream2, false);
    note_read(ctx, &mut r2);
    let g2 = expect_ok(P, "peppi::read", r2.res)?;
    ctx.check();
    if g2.hash != h1 {
        return Err(Violation::new(P, "hash-mismatch", "peppi::read", format!("stored hash {:?} came back as {:?}", h1, g2.hash)));
    }
    let q2 = g2.quirks.map_or(false, |q| q.double_game_end);
    if q1 != q2 {
        return Err(Violation::new(P, "field-mismatch", "quirks", format!("double_game_end {} came back as {}", q1, q2)));
    }
    ctx.checks(2);
    let w = write_slp(&g2, &SinkSpec::default());
    expect_ok(P, "slippi::write(after .slpp)", w.res)?;
    if let Some(off) = first_diff(&w.data, &m.bytes) {
        return Err(Violation::new(
            P,
            "bytes-differ",
            classify_offset(&m, off),
            format!("after .slpp the game serialises differently at offset {} (lengths {} vs {}), version {}.{}", off, w.data.len(), m.bytes.len(), m.v.0, m.v.1),
        ));
    }
    ctx.check();
    ctx.rep.nontrivial = true;
    Ok(())
}

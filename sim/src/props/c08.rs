//! C08 — unknown events and longer payloads from newer versions never disturb known data (S1/S2, twin runs).

use super::c17::{events_hint, gen_unknown};
use super::common::*;
use crate::gen::{self, GenCfg};
use crate::layout as L;
use crate::oracle;
use crate::pipeline::*;
use crate::prng::Rng;
use crate::recorder;
use crate::report::{Ctx, Violation};
use crate::s2;
use crate::spec::*;
use crate::Tier;

const P: &str = "C08";

pub fn gen(seed: u64, tier: Tier) -> ScenarioSpec {
    let mut rng = Rng::new(seed);
    let newer = rng.chance(2, 5);
    let mut cfg = GenCfg { allow_large: tier == Tier::Thorough && rng.chance(1, 6), ..Default::default() };
    if newer {
        let v: [u8; 3] = match rng.below(8) {
            0 => [3, 17, 0],
            1 => [3, 255, 0],
            2 => [4, 0, 0],
            3 => [255, 255, 255],
            4 => [3, 16, 1],
            _ => {
                let ma = 3 + rng.below(253) as u8;
                let mi = if ma == 3 { 17 + rng.below(239) as u8 } else { rng.below(256) as u8 };
                [ma, mi, rng.below(256) as u8]
            }
        };
        cfg.max_version = None;
        cfg.force_version = Some(v);
    }
    let mut rec = gen::gen_recorder(&mut rng, &cfg);
    if newer {
        // extra trailing bytes on known events (0..k), Start and End included
        for code in [L::CODE_START, L::CODE_PRE, L::CODE_POST, L::CODE_END, L::CODE_FSTART, L::CODE_ITEM, L::CODE_FEND, L::CODE_SPLITTER] {
            if rng.chance(2, 3) {
                let k = match rng.below(4) {
                    0 => 1,
                    1 => 1 + rng.below(8) as u16,
                    2 => 1 + rng.below(200) as u16,
                    _ => 4,
                };
                rec.extras.trailing.insert(code, k);
            }
        }
        rec.extras.trailing_pseed = rng.next_u64();
        if rng.chance(1, 40) {
            // a payload as long as 16 bits can say
            let code = *rng.pick(&[L::CODE_END, L::CODE_END, L::CODE_START, L::CODE_FEND]);
            let base = match code {
                c if c == L::CODE_END => L::end_size((rec.version[0], rec.version[1])),
                c if c == L::CODE_START => L::start_size((rec.version[0], rec.version[1])),
                _ => L::payload_size(L::Kind::FEnd, (rec.version[0], rec.version[1])),
            };
            if code != L::CODE_FEND || rec.frames.len() < 40 {
                rec.extras.trailing.insert(code, (65535 - base) as u16);
            }
        }
        if rng.chance(1, 3) {
            rec.extras.unknown = gen_unknown(&mut rng, events_hint(&rec), 2);
        }
    } else {
        rec.extras.unknown = gen_unknown(&mut rng, events_hint(&rec), 6);
    }
    // trailing placement: after the last Game End, still inside the raw element
    if !newer && rec.end != EndKind::None && rng.chance(1, 6) {
        if let Some(u) = rec.extras.unknown.first_mut() {
            // (with a doubled Game End the duplicate is only recognised when nothing else trails it, so
            // the twin without extras would legitimately differ in its quirk flag)
            rec.end = EndKind::Single;
            u.after.push(1_000_000);
            // sizes that coincide with a Game End payload are the interesting ones
            if rng.chance(1, 2) {
                u.size = *rng.pick(&[1u16, 2, 6]);
            }
        }
    }
    // the recorder never finalised the header (raw length 0): the reader then runs to Game End
    // (such a file has exactly one Game End and nothing after it: without a declared length the reader
    // cannot recognise a duplicate or trailing content)
    if rec.end == EndKind::Single && !rec.extras.unknown.iter().any(|u| u.after.iter().any(|k| *k >= 1_000_000)) && rng.chance(1, 8) {
        rec.raw_len_zero = true;
    }
    if rng.chance(1, 6) {
        // the payload table may declare events that never occur (a recorder built with support it does not use)
        rec.extras.phantom = super::c17::gen_phantom(&mut rng, (rec.version[0], rec.version[1]));
    }
    let len = gen::approx_len(&rec);
    let skip_hash = rng.chance(1, 2);
    let live = rng.chance(3, 10) && !rec.raw_len_zero;
    let mut spec = gen::base_spec(P, if live { "S2" } else { "S1" }, seed, rec);
    spec.stream = gen::gen_stream(&mut rng, len, false);
    spec.knobs.insert("skip_hash".into(), skip_hash as i64);
    if live {
        spec.api = Api::Incremental;
        if rng.chance(1, 2) {
            spec.live = Some(gen_live(&mut rng, len, 0));
        }
    }
    spec.knobs.insert("prelude".into(), gen_prelude(&mut rng, &[1, 4, 5], 8));
    spec
}

pub fn run(spec: &ScenarioSpec, ctx: &mut Ctx) -> Result<(), Violation> {
    let m = recorder::build(&spec.recorder);
    ctx.rep.sim_time_ns += m.sim_time_ns();
    shape_of_model(ctx, &m, spec);
    prelude(spec.knob("prelude"), spec.seed, &m, ctx);
    let n_unknown = m.events.iter().filter(|e| matches!(e.what, recorder::What::Unknown | recorder::What::SplitUnknown { .. })).count();
    let trailing = !spec.recorder.extras.trailing.is_empty();
    ctx.shape("extras", (n_unknown.min(3) as u64) | (trailing as u64) << 2);
    ctx.shape("api", (spec.api == Api::Incremental) as u64);
    ctx.probe_if(n_unknown > 0, "unknown events present");
    ctx.probe_if(trailing, "known events carry extra trailing bytes (newer version)");
    for (i, e) in m.events.iter().enumerate() {
        if let recorder::What::SplitUnknown { last: true, .. } = e.what {
            let gecko_follows = m.events[i + 1..].iter().any(|p| matches!(p.what, recorder::What::Gecko { .. }));
            ctx.probe(if gecko_follows { "unknown event delivered through splitter blocks before the Gecko list" } else { "unknown event delivered through splitter blocks" });
        }
    }
    // where did unknown events land?
    for (i, e) in m.events.iter().enumerate() {
        if e.what != recorder::What::Unknown {
            continue;
        }
        let prev = m.events[..i].iter().rev().find(|p| p.what != recorder::What::Unknown).map(|p| p.what.clone());
        let next = m.events[i + 1..].iter().find(|p| p.what != recorder::What::Unknown).map(|p| p.what.clone());
        match (&prev, &next) {
            (Some(recorder::What::Gecko { last: false }), _) => ctx.probe("unknown event between splitter blocks"),
            (Some(recorder::What::Pre { .. }), Some(recorder::What::Post { .. }))
            | (Some(recorder::What::Pre { .. }), Some(recorder::What::Pre { .. }))
            | (Some(recorder::What::Pre { .. }), Some(recorder::What::Item { .. }))
            | (Some(recorder::What::Item { .. }), Some(recorder::What::Post { .. })) => ctx.probe("unknown event inside a frame (between pre and post)"),
            (Some(recorder::What::Start), _) => ctx.probe("unknown event right after Game Start"),
            (_, Some(recorder::What::End { .. })) => ctx.probe("unknown event right before Game End"),
            _ => {}
        }
    }
    // twin: same recording without the extras
    let mut twin_rec = spec.recorder.clone();
    twin_rec.extras = Extras::default();
    let tm = recorder::build(&twin_rec);
    let twin = expect_ok(P, "slippi::read(twin without extras)", read_slp_noopts(&tm.bytes, &StreamSpec::default(), &[]).res)?;

    if spec.api == Api::Incremental {
        // the live parser must step over the extras; its state is compared with the model (which ignores them)
        s2::run(spec, &m, ctx, P, s2::Flags { model_rows: true, row_view: false, protocol: true, final_equiv: true })?;
        ctx.rep.nontrivial = n_unknown > 0 || trailing;
        return Ok(());
    }
    let Some(game) = s1_read(P, spec, &m, ctx, false)? else { return Ok(()) };
    // differential against the twin
    // quirk flags are derived, not a field of any event: compared only when the known events are byte-identical
    // (the duplicated-Game-End flag is derived from the event sequence, which is the same with and without the extras)
    let mask = CmpMask { frames: true, hash: false, quirks: true, start_bytes: !trailing };
    let n = cmp_games(&game, &twin, mask).map_err(|(s, msg)| Violation::new(P, "field-mismatch", format!("with-extras-vs-without {}", s), msg))?;
    ctx.checks(n);
    // and against the model directly
    let n = oracle::check_all_rows(&m, &game.frames).map_err(|f| fail_v(P, f))?;
    ctx.checks(n);
    // the same file must also parse under the skip-frames option (finished files only): the jump to
    // Game End has to honour the sizes the file declares, extras included
    let trailing_unknown = spec.recorder.extras.unknown.iter().any(|u| u.after.iter().any(|k| *k >= 1_000_000));
    ctx.probe_if(trailing_unknown, "unknown event after Game End inside the raw element");
    ctx.probe_if(spec.recorder.raw_len_zero, "unfinalised header (raw length 0)");
    // (skip-frames presupposes a finalised file whose last event is Game End)
    if m.end.is_some() && !trailing_unknown && !spec.recorder.raw_len_zero {
        let hash = spec.knob("skip_hash") != 0;
        let edges = m.edges();
        let mut ro = read_slp(&m.bytes, &spec.stream, &edges, OptsSpec { skip_frames: true, compute_hash: hash });
        note_read(ctx, &mut ro);
        let sk = expect_ok(P, "slippi::read(skip_frames)", ro.res)?;
        // skip-frames promises start, end and metadata only (Gecko codes are jumped over)
        for (what, a, b) in [
            ("start", json_of(&sk.start), json_of(&twin.start)),
            ("end", json_of(&sk.end), json_of(&twin.end)),
            ("metadata", json_of(&sk.metadata), json_of(&twin.metadata)),
        ] {
            if a != b {
                return Err(Violation::new(P, "field-mismatch", format!("skip-frames-with-extras-vs-without {}", what), format!("{} vs {}", crate::report::short(&a, 120), crate::report::short(&b, 120))));
            }
        }
        // whatever else the skip read reports (today: no Gecko codes, no frames) must not depend on the extras
        // either: same options on the twin file, same answer
        let tsk = expect_ok(P, "slippi::read(skip_frames, twin)", read_slp(&tm.bytes, &StreamSpec::default(), &[], OptsSpec { skip_frames: true, compute_hash: hash }).res)?;
        let ga = sk.gecko_codes.as_ref().map(|g| (g.bytes.clone(), g.actual_size));
        let gb = tsk.gecko_codes.as_ref().map(|g| (g.bytes.clone(), g.actual_size));
        if ga != gb {
            return Err(Violation::new(P, "field-mismatch", "skip-frames-with-extras-vs-without gecko_codes", format!("present {} vs {}", ga.is_some(), gb.is_some())));
        }
        if sk.frames.len() != tsk.frames.len() {
            return Err(Violation::new(P, "field-mismatch", "skip-frames-with-extras-vs-without frames.len", format!("{} vs {}", sk.frames.len(), tsk.frames.len())));
        }
        ctx.probe("skip-frames read of a file with extras");
        ctx.check();
    }
    ctx.rep.nontrivial = n_unknown > 0 || trailing;
    Ok(())
}

//! Independent layout table, transcribed by hand from the Slippi SPEC
//! (DESIGN.md Appendix A). NOT derived from peppi's gen/resources/frames.json.
//!
//! Offsets are from the command byte (the payload starts at offset 1), so an
//! event stored as `[code, payload...]` can be indexed with them directly.

#[derive(Clone, Copy, Debug, PartialEq, Eq)]
pub enum Ty {
    U8,
    I8,
    U16,
    U32,
    I32,
    F32,
}

impl Ty {
    pub fn size(self) -> usize {
        match self {
            Ty::U8 | Ty::I8 => 1,
            Ty::U16 => 2,
            Ty::U32 | Ty::I32 | Ty::F32 => 4,
        }
    }
}

#[derive(Clone, Copy, Debug)]
pub struct Field {
    pub name: &'static str,
    pub off: usize,
    pub ty: Ty,
    pub since: (u8, u8),
}

const fn f(name: &'static str, off: usize, ty: Ty, since: (u8, u8)) -> Field {
    Field { name, off, ty, since }
}

pub const CODE_SPLITTER: u8 = 0x10;
pub const CODE_PAYLOADS: u8 = 0x35;
pub const CODE_START: u8 = 0x36;
pub const CODE_PRE: u8 = 0x37;
pub const CODE_POST: u8 = 0x38;
pub const CODE_END: u8 = 0x39;
pub const CODE_FSTART: u8 = 0x3A;
pub const CODE_ITEM: u8 = 0x3B;
pub const CODE_FEND: u8 = 0x3C;
pub const CODE_GECKO: u8 = 0x3D;

pub const KNOWN_CODES: [u8; 10] = [0x10, 0x35, 0x36, 0x37, 0x38, 0x39, 0x3A, 0x3B, 0x3C, 0x3D];

use Ty::*;

/// Pre-frame update 0x37. Header: 01 frame i32, 05 port u8, 06 follower u8.
pub const PRE: &[Field] = &[
    f("random_seed", 0x07, U32, (0, 1)),
    f("state", 0x0B, U16, (0, 1)),
    f("position.x", 0x0D, F32, (0, 1)),
    f("position.y", 0x11, F32, (0, 1)),
    f("direction", 0x15, F32, (0, 1)),
    f("joystick.x", 0x19, F32, (0, 1)),
    f("joystick.y", 0x1D, F32, (0, 1)),
    f("cstick.x", 0x21, F32, (0, 1)),
    f("cstick.y", 0x25, F32, (0, 1)),
    f("triggers", 0x29, F32, (0, 1)),
    f("buttons", 0x2D, U32, (0, 1)),
    f("buttons_physical", 0x31, U16, (0, 1)),
    f("triggers_physical.l", 0x33, F32, (0, 1)),
    f("triggers_physical.r", 0x37, F32, (0, 1)),
    f("raw_analog_x", 0x3B, I8, (1, 2)),
    f("percent", 0x3C, F32, (1, 4)),
    f("raw_analog_y", 0x40, I8, (3, 15)),
];

/// Post-frame update 0x38. Header as Pre.
pub const POST: &[Field] = &[
    f("character", 0x07, U8, (0, 1)),
    f("state", 0x08, U16, (0, 1)),
    f("position.x", 0x0A, F32, (0, 1)),
    f("position.y", 0x0E, F32, (0, 1)),
    f("direction", 0x12, F32, (0, 1)),
    f("percent", 0x16, F32, (0, 1)),
    f("shield", 0x1A, F32, (0, 1)),
    f("last_attack_landed", 0x1E, U8, (0, 1)),
    f("combo_count", 0x1F, U8, (0, 1)),
    f("last_hit_by", 0x20, U8, (0, 1)),
    f("stocks", 0x21, U8, (0, 1)),
    f("state_age", 0x22, F32, (0, 2)),
    f("state_flags.0", 0x26, U8, (2, 0)),
    f("state_flags.1", 0x27, U8, (2, 0)),
    f("state_flags.2", 0x28, U8, (2, 0)),
    f("state_flags.3", 0x29, U8, (2, 0)),
    f("state_flags.4", 0x2A, U8, (2, 0)),
    f("misc_as", 0x2B, F32, (2, 0)),
    f("airborne", 0x2F, U8, (2, 0)),
    f("ground", 0x30, U16, (2, 0)),
    f("jumps", 0x32, U8, (2, 0)),
    f("l_cancel", 0x33, U8, (2, 0)),
    f("hurtbox_state", 0x34, U8, (2, 1)),
    f("velocities.self_x_air", 0x35, F32, (3, 5)),
    f("velocities.self_y", 0x39, F32, (3, 5)),
    f("velocities.knockback_x", 0x3D, F32, (3, 5)),
    f("velocities.knockback_y", 0x41, F32, (3, 5)),
    f("velocities.self_x_ground", 0x45, F32, (3, 5)),
    f("hitlag", 0x49, F32, (3, 8)),
    f("animation_index", 0x4D, U32, (3, 11)),
    f("last_hit_by_instance", 0x51, U16, (3, 16)),
    f("instance_id", 0x53, U16, (3, 16)),
];

/// Frame Start 0x3A (>= 2.2). Header: 01 frame i32.
pub const FSTART: &[Field] = &[
    f("random_seed", 0x05, U32, (2, 2)),
    f("scene_frame_counter", 0x09, U32, (3, 10)),
];

/// Item update 0x3B (>= 3.0). Header: 01 frame i32.
pub const ITEM: &[Field] = &[
    f("type", 0x05, U16, (3, 0)),
    f("state", 0x07, U8, (3, 0)),
    f("direction", 0x08, F32, (3, 0)),
    f("velocity.x", 0x0C, F32, (3, 0)),
    f("velocity.y", 0x10, F32, (3, 0)),
    f("position.x", 0x14, F32, (3, 0)),
    f("position.y", 0x18, F32, (3, 0)),
    f("damage", 0x1C, U16, (3, 0)),
    f("timer", 0x1E, F32, (3, 0)),
    f("id", 0x22, U32, (3, 0)),
    f("misc.0", 0x26, U8, (3, 2)),
    f("misc.1", 0x27, U8, (3, 2)),
    f("misc.2", 0x28, U8, (3, 2)),
    f("misc.3", 0x29, U8, (3, 2)),
    f("owner", 0x2A, I8, (3, 6)),
    f("instance_id", 0x2B, U16, (3, 16)),
];

/// Frame End (bookend) 0x3C (>= 3.0). Header: 01 frame i32.
pub const FEND: &[Field] = &[f("latest_finalized_frame", 0x05, I32, (3, 7))];

#[derive(Clone, Copy, Debug, PartialEq, Eq, PartialOrd, Ord, Hash)]
pub enum Kind {
    Pre,
    Post,
    FStart,
    Item,
    FEnd,
}

pub fn fields(kind: Kind) -> &'static [Field] {
    match kind {
        Kind::Pre => PRE,
        Kind::Post => POST,
        Kind::FStart => FSTART,
        Kind::Item => ITEM,
        Kind::FEnd => FEND,
    }
}

pub fn code(kind: Kind) -> u8 {
    match kind {
        Kind::Pre => CODE_PRE,
        Kind::Post => CODE_POST,
        Kind::FStart => CODE_FSTART,
        Kind::Item => CODE_ITEM,
        Kind::FEnd => CODE_FEND,
    }
}

/// Offset of the first data field (after frame id / port / follower).
pub fn header_len(kind: Kind) -> usize {
    match kind {
        Kind::Pre | Kind::Post => 7,
        _ => 5,
    }
}

#[inline]
pub fn gte(v: (u8, u8), t: (u8, u8)) -> bool {
    v.0 > t.0 || (v.0 == t.0 && v.1 >= t.1)
}

/// Payload size (without command byte) the spec prescribes for `kind` at version `v`.
/// Explicit per-version table; `self_check` verifies it against the field list.
pub fn payload_size(kind: Kind, v: (u8, u8)) -> usize {
    match kind {
        Kind::Pre => {
            if gte(v, (3, 15)) {
                64
            } else if gte(v, (1, 4)) {
                63
            } else if gte(v, (1, 2)) {
                59
            } else {
                58
            }
        }
        Kind::Post => {
            if gte(v, (3, 16)) {
                84
            } else if gte(v, (3, 11)) {
                80
            } else if gte(v, (3, 8)) {
                76
            } else if gte(v, (3, 5)) {
                72
            } else if gte(v, (2, 1)) {
                52
            } else if gte(v, (2, 0)) {
                51
            } else if gte(v, (0, 2)) {
                37
            } else {
                33
            }
        }
        Kind::FStart => {
            if gte(v, (3, 10)) {
                12
            } else {
                8
            }
        }
        Kind::Item => {
            if gte(v, (3, 16)) {
                44
            } else if gte(v, (3, 6)) {
                42
            } else if gte(v, (3, 2)) {
                41
            } else {
                37
            }
        }
        Kind::FEnd => {
            if gte(v, (3, 7)) {
                8
            } else {
                4
            }
        }
    }
}

pub fn start_size(v: (u8, u8)) -> usize {
    if gte(v, (3, 14)) {
        760
    } else if gte(v, (3, 12)) {
        701
    } else if gte(v, (3, 11)) {
        700
    } else if gte(v, (3, 9)) {
        584
    } else if gte(v, (3, 7)) {
        420
    } else if gte(v, (2, 0)) {
        418
    } else if gte(v, (1, 5)) {
        417
    } else if gte(v, (1, 3)) {
        416
    } else if gte(v, (1, 0)) {
        352
    } else {
        320
    }
}

pub fn end_size(v: (u8, u8)) -> usize {
    if gte(v, (3, 13)) {
        6
    } else if gte(v, (2, 0)) {
        2
    } else {
        1
    }
}

/// All (major, minor) thresholds at which some layout changes.
pub const GATES: &[(u8, u8)] = &[
    (0, 1),
    (0, 2),
    (1, 0),
    (1, 2),
    (1, 3),
    (1, 4),
    (1, 5),
    (2, 0),
    (2, 1),
    (2, 2),
    (3, 0),
    (3, 2),
    (3, 3),
    (3, 5),
    (3, 6),
    (3, 7),
    (3, 8),
    (3, 9),
    (3, 10),
    (3, 11),
    (3, 12),
    (3, 13),
    (3, 14),
    (3, 15),
    (3, 16),
];

/// Game Start absolute offsets (from the command byte).
pub mod gs {
    pub const VERSION: usize = 0x01;
    pub const BUILD: usize = 0x04;
    pub const BITFIELD: usize = 0x05; // 4 bytes
    pub const IS_RAINING_BOMBS: usize = 0x0B;
    pub const IS_TEAMS: usize = 0x0D;
    pub const ITEM_SPAWN_FREQ: usize = 0x10;
    pub const SD_SCORE: usize = 0x11;
    pub const STAGE: usize = 0x13; // u16
    pub const TIMER: usize = 0x15; // u32
    pub const ITEM_SPAWN_BITFIELD: usize = 0x28; // 5 bytes
    pub const DAMAGE_RATIO: usize = 0x35; // f32
    pub const PLAYERS: usize = 0x65; // 6 x 0x24
    pub const PLAYER_STRIDE: usize = 0x24;
    pub const P_CHARACTER: usize = 0x00;
    pub const P_TYPE: usize = 0x01;
    pub const P_STOCKS: usize = 0x02;
    pub const P_COSTUME: usize = 0x03;
    pub const P_TEAM_SHADE: usize = 0x07;
    pub const P_HANDICAP: usize = 0x08;
    pub const P_TEAM_COLOR: usize = 0x09;
    pub const P_BITFIELD: usize = 0x0C;
    pub const P_CPU_LEVEL: usize = 0x0F;
    pub const P_OFFENSE: usize = 0x18;
    pub const P_DEFENSE: usize = 0x1C;
    pub const P_SCALE: usize = 0x20;
    pub const RANDOM_SEED: usize = 0x13D; // u32
    pub const UCF: usize = 0x141; // 4 x (dash_back u32, shield_drop u32), since 1.0
    pub const NAME_TAG: usize = 0x161; // 4 x 16, since 1.3
    pub const IS_PAL: usize = 0x1A1; // 1.5
    pub const IS_FROZEN_PS: usize = 0x1A2; // 2.0
    pub const SCENE_MINOR: usize = 0x1A3; // 3.7
    pub const SCENE_MAJOR: usize = 0x1A4; // 3.7
    pub const NETPLAY_NAME: usize = 0x1A5; // 4 x 31, 3.9
    pub const CONNECT_CODE: usize = 0x221; // 4 x 10, 3.9
    pub const SLIPPI_UID: usize = 0x249; // 4 x 29, 3.11
    pub const LANGUAGE: usize = 0x2BD; // 3.12
    pub const MATCH_ID: usize = 0x2BE; // 51 bytes, 3.14
    pub const GAME_NUMBER: usize = 0x2F1; // u32, 3.14
    pub const TIEBREAKER: usize = 0x2F5; // u32, 3.14
}

/// Game End absolute offsets.
pub mod ge {
    pub const METHOD: usize = 0x01;
    pub const LRAS: usize = 0x02; // 2.0
    pub const PLACEMENTS: usize = 0x03; // 4 x i8, 3.13
}

/// Read field `fld` from an event (`ev[0]` is the command byte) as raw bits,
/// zero-extended to u64. Big-endian per spec.
pub fn read_bits(ev: &[u8], fld: &Field) -> u64 {
    let b = &ev[fld.off..fld.off + fld.ty.size()];
    let mut x: u64 = 0;
    for &y in b {
        x = (x << 8) | y as u64;
    }
    x
}

pub fn write_bits(ev: &mut [u8], fld: &Field, bits: u64) {
    let n = fld.ty.size();
    for k in 0..n {
        ev[fld.off + k] = (bits >> (8 * (n - 1 - k))) as u8;
    }
}

/// Self-check: for every gate version, the fields present are contiguous from
/// the header and end exactly at payload_size+1.
pub fn self_check() -> Result<(), String> {
    for kind in [Kind::Pre, Kind::Post, Kind::FStart, Kind::Item, Kind::FEnd] {
        for &v in GATES {
            let min = match kind {
                Kind::FStart => (2, 2),
                Kind::Item | Kind::FEnd => (3, 0),
                _ => (0, 1),
            };
            if !gte(v, min) {
                continue;
            }
            let mut pos = header_len(kind);
            for fld in fields(kind) {
                if gte(v, fld.since) {
                    if fld.off != pos {
                        return Err(format!(
                            "{:?} v{}.{}: field {} at {:#x}, expected {:#x}",
                            kind, v.0, v.1, fld.name, fld.off, pos
                        ));
                    }
                    pos += fld.ty.size();
                }
            }
            if pos != payload_size(kind, v) + 1 {
                return Err(format!(
                    "{:?} v{}.{}: fields end at {:#x}, payload size says {:#x}",
                    kind,
                    v.0,
                    v.1,
                    pos,
                    payload_size(kind, v) + 1
                ));
            }
        }
    }
    // gates must be monotone in the field lists (a later field never has an earlier `since`)
    for kind in [Kind::Pre, Kind::Post, Kind::FStart, Kind::Item, Kind::FEnd] {
        let fs = fields(kind);
        for w in fs.windows(2) {
            if !gte(w[1].since, w[0].since) {
                return Err(format!("{:?}: since not monotone at {}", kind, w[1].name));
            }
        }
    }
    // Game Start size classes
    let checks: &[((u8, u8), usize)] = &[
        ((0, 1), gs::RANDOM_SEED + 4),
        ((1, 0), gs::UCF + 32),
        ((1, 3), gs::NAME_TAG + 64),
        ((1, 5), gs::IS_PAL + 1),
        ((2, 0), gs::IS_FROZEN_PS + 1),
        ((3, 7), gs::SCENE_MAJOR + 1),
        ((3, 9), gs::CONNECT_CODE + 40),
        ((3, 11), gs::SLIPPI_UID + 116),
        ((3, 12), gs::LANGUAGE + 1),
        ((3, 14), gs::TIEBREAKER + 4),
    ];
    for (v, end) in checks {
        if start_size(*v) + 1 != *end {
            return Err(format!("Game Start v{}.{}: size {} vs end {:#x}", v.0, v.1, start_size(*v), end));
        }
    }
    if gs::PLAYERS + 6 * gs::PLAYER_STRIDE != gs::RANDOM_SEED {
        return Err("Game Start player blocks do not end at random_seed".into());
    }
    Ok(())
}

//! Adversarial input construction (family S4): transport faults at event
//! granularity, structural edits, and disk faults on the final bytes.

use crate::layout as L;
use crate::prng::Rng;
use crate::recorder::{Model, What, FILE_SIG, HEADER_LEN, META_KEY};
use crate::spec::*;

pub const TRANSPORT_KINDS: &[&str] = &[
    "drop",
    "dup",
    "swap",
    "wrong_id",
    "wrong_port",
    "wrong_follower",
    "illegal_event",
    "table_edit",
    "splitter_edit",
    "meta_edit",
    "raw_len_edit",
    "early_end",
];

pub const DISK_KINDS: &[&str] = &["cut", "torn", "lost", "zeroed", "flip", "garbage"];

struct Parts {
    table: Vec<(u8, u16)>,
    /// events after the payload table, each with its command byte
    events: Vec<Vec<u8>>,
    whats: Vec<What>,
    tail: Vec<u8>,
    /// None = recompute from the events
    raw_len_override: Option<u32>,
    /// raw table bytes override (for malformed table edits)
    table_bytes_override: Option<Vec<u8>>,
}

fn parts_of(m: &Model) -> Parts {
    let mut events = vec![];
    let mut whats = vec![];
    for e in m.events.iter().skip(1) {
        events.push(m.bytes[e.off..e.off + e.len].to_vec());
        whats.push(e.what.clone());
    }
    // junk after end (if any) becomes a pseudo event so that it is preserved
    let last_end = m.events.last().map(|e| e.off + e.len).unwrap_or(HEADER_LEN);
    if last_end < m.raw_end {
        events.push(m.bytes[last_end..m.raw_end].to_vec());
        whats.push(What::Unknown);
    }
    Parts { table: m.table.clone(), events, whats, tail: m.bytes[m.raw_end..].to_vec(), raw_len_override: None, table_bytes_override: None }
}

fn assemble(p: &Parts) -> Vec<u8> {
    let mut raw: Vec<u8> = vec![];
    match &p.table_bytes_override {
        Some(t) => raw.extend_from_slice(t),
        None => {
            raw.push(L::CODE_PAYLOADS);
            raw.push((3 * p.table.len() + 1) as u8);
            for (c, s) in &p.table {
                raw.push(*c);
                raw.extend_from_slice(&s.to_be_bytes());
            }
        }
    }
    for e in &p.events {
        raw.extend_from_slice(e);
    }
    let mut out = vec![];
    out.extend_from_slice(&FILE_SIG);
    let rl = p.raw_len_override.unwrap_or(raw.len() as u32);
    out.extend_from_slice(&rl.to_be_bytes());
    out.extend_from_slice(&raw);
    out.extend_from_slice(&p.tail);
    out
}

fn deep_meta(depth: usize, variant: i64) -> Vec<u8> {
    let mut t = vec![];
    t.extend_from_slice(&META_KEY);
    // nesting through different value markers: maps (the only container the format uses today),
    // arrays, and alternations of both (a reader that grows support for a new container must bound it too)
    match (variant / 2) % 4 {
        1 => {
            t.extend_from_slice(&[b'U', 1, b'k']);
            for _ in 0..depth {
                t.push(b'[');
            }
            if variant % 2 == 0 {
                for _ in 0..depth {
                    t.push(b']');
                }
                t.push(b'}');
                t.push(b'}');
            }
            return t;
        }
        2 => {
            for i in 0..depth {
                if i % 2 == 0 {
                    t.extend_from_slice(&[b'U', 1, b'k', b'[']);
                } else {
                    t.push(b'{');
                }
            }
            return t;
        }
        _ => {}
    }
    for _ in 0..depth {
        t.extend_from_slice(&[b'U', 1, b'k', b'{']);
    }
    if variant % 2 == 0 {
        // properly closed
        for _ in 0..depth {
            t.push(b'}');
        }
        t.push(b'}');
        t.push(b'}');
    }
    t
}

/// Apply one transport fault. Returns true if it changed something (fired).
fn apply_one(p: &mut Parts, m: &Model, f: &TransportFault) -> bool {
    let mut rng = Rng::new(f.pseed);
    let n = p.events.len();
    if n == 0 {
        return false;
    }
    let i = (f.at as usize) % n;
    match f.kind.as_str() {
        "drop" => {
            p.events.remove(i);
            p.whats.remove(i);
            true
        }
        "dup" => {
            let e = p.events[i].clone();
            let w = p.whats[i].clone();
            p.events.insert(i, e);
            p.whats.insert(i, w);
            true
        }
        "swap" => {
            if i + 1 < n {
                p.events.swap(i, i + 1);
                p.whats.swap(i, i + 1);
                true
            } else {
                false
            }
        }
        "wrong_id" => {
            // next frame-level event at or after i
            for k in (i..n).chain(0..i) {
                if matches!(p.whats[k], What::FStart | What::Pre { .. } | What::Post { .. } | What::Item { .. } | What::FEnd) && p.events[k].len() >= 5 {
                    let id = i32::from_be_bytes([p.events[k][1], p.events[k][2], p.events[k][3], p.events[k][4]]);
                    let new = match f.arg {
                        0 => id.wrapping_add(1),
                        1 => id.wrapping_sub(1),
                        2 => i32::MIN,
                        3 => i32::MAX,
                        4 => -124,
                        _ => rng.next_u32() as i32,
                    };
                    p.events[k][1..5].copy_from_slice(&new.to_be_bytes());
                    return true;
                }
            }
            false
        }
        "wrong_port" | "wrong_follower" => {
            for k in (i..n).chain(0..i) {
                if matches!(p.whats[k], What::Pre { .. } | What::Post { .. }) && p.events[k].len() >= 7 {
                    if f.kind == "wrong_port" {
                        p.events[k][5] = match f.arg {
                            0 => 4,
                            1 => 255,
                            2 => p.events[k][5].wrapping_add(1) % 4,
                            3 => 128,
                            _ => rng.below(256) as u8,
                        };
                    } else {
                        p.events[k][6] = if p.events[k][6] == 0 { 1 + (f.arg as u8 % 255) } else { 0 };
                    }
                    return true;
                }
            }
            false
        }
        "illegal_event" => {
            // an event kind the version does not have (or any known kind at a wrong place)
            let code = match f.arg % 8 {
                0 => L::CODE_FSTART,
                1 => L::CODE_ITEM,
                2 => L::CODE_FEND,
                3 => L::CODE_GECKO,
                4 => L::CODE_SPLITTER,
                5 => L::CODE_PAYLOADS,
                6 => L::CODE_START,
                _ => L::CODE_POST,
            };
            let with_entry = (f.arg / 8) % 2 == 0;
            let size = match p.table.iter().find(|(c, _)| *c == code) {
                Some((_, s)) => *s as usize,
                None => {
                    let s = match code {
                        L::CODE_FSTART => 12,
                        L::CODE_ITEM => 44,
                        L::CODE_FEND => 8,
                        L::CODE_SPLITTER => *rng.pick(&[516usize, 516, 100, 517]),
                        _ => 1 + rng.usize_below(80),
                    };
                    if with_entry {
                        p.table.push((code, s as u16));
                    }
                    s
                }
            };
            let mut ev = vec![0u8; 1 + size];
            rng.fill(&mut ev[1..]);
            ev[0] = code;
            // plausible frame id: that of a neighbouring frame event
            if size >= 4 {
                let id = p.events.iter().zip(p.whats.iter()).find(|(_, w)| matches!(w, What::Pre { .. } | What::FStart)).map(|(e, _)| [e[1], e[2], e[3], e[4]]);
                if let (Some(id), true) = (id, rng.chance(1, 2)) {
                    ev[1..5].copy_from_slice(&id);
                }
            }
            let at = 1 + i.min(n - 1);
            p.events.insert(at.min(p.events.len()), ev);
            p.whats.insert(at.min(p.whats.len()), What::Unknown);
            true
        }
        "table_edit" => {
            if p.table.is_empty() {
                return false;
            }
            let k = (f.at as usize) % p.table.len();
            match f.arg % 8 {
                0 => p.table[k].1 = 0,
                1 => p.table[k].1 = 65535,
                2 => {
                    let e = p.table[k];
                    p.table.push(e);
                }
                3 => {
                    p.table.retain(|(c, _)| *c != L::CODE_START);
                }
                4 => {
                    p.table.retain(|(c, _)| *c != L::CODE_END);
                }
                5 => {
                    // size byte not 1 mod 3
                    let mut t = vec![L::CODE_PAYLOADS, (3 * p.table.len() + 1 + 1 + (f.at % 2) as usize) as u8];
                    for (c, s) in &p.table {
                        t.push(*c);
                        t.extend_from_slice(&s.to_be_bytes());
                    }
                    t.push(0);
                    p.table_bytes_override = Some(t);
                }
                6 => p.table[k].1 = p.table[k].1.wrapping_add(1 + (rng.below(3) as u16)),
                _ => p.table[k].1 = p.table[k].1.saturating_sub(1 + rng.below(3) as u16).max(1),
            }
            true
        }
        "splitter_flood" => {
            // a long run of non-final splitter blocks (a message that never completes, or a very long one)
            if !p.table.iter().any(|(c, _)| *c == L::CODE_SPLITTER) {
                p.table.push((L::CODE_GECKO, 300));
                p.table.push((L::CODE_SPLITTER, 516));
            }
            if p.table.iter().find(|(c, _)| *c == L::CODE_SPLITTER).map(|t| t.1) != Some(516) {
                return false;
            }
            let n_blocks = *rng.pick(&[400usize, 3000, 45_000]);
            let mut ev = vec![0u8; 517];
            ev[0] = L::CODE_SPLITTER;
            ev[513..515].copy_from_slice(&512u16.to_be_bytes());
            ev[515] = if f.arg % 2 == 0 { L::CODE_GECKO } else { 0x77 };
            ev[516] = 0;
            let at = 1.min(p.events.len());
            for _ in 0..n_blocks {
                p.events.insert(at, ev.clone());
                p.whats.insert(at, What::Gecko { last: false });
            }
            if f.arg % 3 == 0 {
                // ... that does complete in the end
                let mut last = ev.clone();
                last[516] = 1;
                p.events.insert(at + n_blocks, last);
                p.whats.insert(at + n_blocks, What::Gecko { last: true });
            }
            true
        }
        "splitter_edit" => {
            // find splitter blocks; if none, synthesise one (with table entries) after Game Start
            let idx: Vec<usize> = p.whats.iter().enumerate().filter(|(_, w)| matches!(w, What::Gecko { .. })).map(|(k, _)| k).collect();
            if idx.is_empty() {
                if !p.table.iter().any(|(c, _)| *c == L::CODE_SPLITTER) {
                    p.table.push((L::CODE_GECKO, 300));
                    p.table.push((L::CODE_SPLITTER, if f.arg % 8 == 0 { 100 } else { 516 }));
                }
                let sz = p.table.iter().find(|(c, _)| *c == L::CODE_SPLITTER).unwrap().1 as usize;
                let mut ev = vec![0u8; 1 + sz];
                rng.fill(&mut ev[1..]);
                ev[0] = L::CODE_SPLITTER;
                if sz == 516 {
                    ev[513..515].copy_from_slice(&300u16.to_be_bytes());
                    ev[515] = L::CODE_GECKO;
                    ev[516] = 1;
                }
                p.events.insert(1.min(p.events.len()), ev);
                p.whats.insert(1.min(p.whats.len()), What::Gecko { last: true });
            }
            let idx: Vec<usize> = p.whats.iter().enumerate().filter(|(_, w)| matches!(w, What::Gecko { .. })).map(|(k, _)| k).collect();
            let k = idx[(f.at as usize) % idx.len()];
            let len = p.events[k].len();
            match f.arg % 8 {
                0 => {
                    // table says a different splitter size; events resized accordingly
                    let new = *rng.pick(&[100u16, 515, 517, 1, 600]);
                    for t in p.table.iter_mut() {
                        if t.0 == L::CODE_SPLITTER {
                            t.1 = new;
                        }
                    }
                    for j in &idx {
                        p.events[*j].resize(1 + new as usize, 0xAB);
                    }
                }
                1 => {
                    if len >= 517 {
                        p.events[k][513..515].copy_from_slice(&(*rng.pick(&[513u16, 1024, 65535])).to_be_bytes());
                    }
                }
                2 => {
                    // never final
                    for j in &idx {
                        if p.events[*j].len() >= 517 {
                            p.events[*j][516] = 0;
                        }
                    }
                }
                3 => {
                    // final first
                    if p.events[idx[0]].len() >= 517 {
                        p.events[idx[0]][516] = 1;
                    }
                }
                4 => {
                    // wrapped event is something else entirely
                    if len >= 517 {
                        p.events[k][515] = *rng.pick(&[L::CODE_PRE, L::CODE_POST, L::CODE_START, L::CODE_END, L::CODE_PAYLOADS, L::CODE_SPLITTER, L::CODE_FSTART, L::CODE_FEND, L::CODE_ITEM, 0xEE]);
                    }
                }
                5 => {
                    if len >= 517 {
                        p.events[k][513..515].copy_from_slice(&0u16.to_be_bytes());
                    }
                }
                _ => {
                    if len >= 517 {
                        p.events[k][516] = p.events[k][516] ^ 1;
                    }
                }
            }
            true
        }
        "meta_edit" => {
            match f.arg % 12 {
                10 | 11 => {
                    // a length written with another integer marker than `U` (as other UBJSON writers do), with a
                    // length whose top bit is set
                    let marker = *rng.pick(&[b'i', b'I', b'l', b'L', b'u']);
                    let mut t = META_KEY.to_vec();
                    if f.arg % 12 == 10 {
                        // as a key length
                        t.push(marker);
                    } else {
                        // as a string length
                        t.extend_from_slice(&[b'U', 1, b'a', b'S', marker]);
                    }
                    t.extend_from_slice(&[*rng.pick(&[0x80u8, 0xFF, 0xC0]), 0xFF, 0xFF, 0xFF, 0xFF, 0xFF, 0xFF, 0xFF, b'x', b'}', b'}']);
                    p.tail = t;
                }
                0 => p.tail = deep_meta(200_000, f.at as i64),
                1 => p.tail = deep_meta(20_000, f.at as i64),
                2 => p.tail = deep_meta(1 + (f.at as usize % 3000), f.at as i64),
                3 => {
                    // wrong value marker
                    let mut t = META_KEY.to_vec();
                    t.extend_from_slice(&[b'U', 1, b'a', *rng.pick(&[b'd', b'D', b'i', b'L', b'[', b'Z', b'T', b'I', b'u', b'H', b'C', 0, 255])]);
                    // whatever a reader that knows this marker would decode next: random, NaN / infinity patterns, zeros
                    match rng.below(4) {
                        0 => t.extend_from_slice(&[0xFF; 8]),
                        1 => t.extend_from_slice(&[0x7F, 0xF0, 0, 0, 0, 0, 0, 0]),
                        2 => t.extend_from_slice(&[0x7F, 0x80, 0, 0, 0x7F, 0xC0, 0, 1]),
                        _ => {
                            let mut b = [0u8; 8];
                            rng.fill(&mut b);
                            t.extend_from_slice(&b);
                        }
                    }
                    t.extend_from_slice(&[b'}', b'}']);
                    p.tail = t;
                }
                4 => {
                    // invalid UTF-8 in key / string
                    let mut t = META_KEY.to_vec();
                    t.extend_from_slice(&[b'U', 2, 0xC3, 0x28, b'S', b'U', 2, 0xFF, 0xFE, b'}', b'}']);
                    p.tail = t;
                }
                5 => {
                    // string length beyond the data
                    let mut t = META_KEY.to_vec();
                    t.extend_from_slice(&[b'U', 1, b'a', b'S', b'U', 255, b'x', b'}', b'}']);
                    p.tail = t;
                }
                6 => {
                    // key marker wrong
                    let mut t = META_KEY.to_vec();
                    t.extend_from_slice(&[b'S', 1, b'a', b'l', 0, 0, 0, 1, b'}', b'}']);
                    p.tail = t;
                }
                7 => p.tail = vec![*rng.pick(&[0u8, b'{', b'U', 0x55, 0x7c, 0xFF])],
                8 => p.tail = vec![],
                _ => {
                    // wrong metadata key
                    let mut t = p.tail.clone();
                    if t.len() > 4 {
                        t[3] ^= 0x20;
                    }
                    p.tail = t;
                }
            }
            true
        }
        "raw_len_edit" => {
            let actual: usize = assemble(p).len() - HEADER_LEN - p.tail.len();
            // where the skip-frames jump computes from: end of Game Start, and the declared Game End size
            let after_start = (2 + 3 * p.table.len() + p.events.first().map_or(0, |e| e.len())) as u32;
            let end_sz = p.table.iter().find(|(c, _)| *c == L::CODE_END).map_or(0, |(_, s)| *s as u32);
            p.raw_len_override = Some(match f.arg % 13 {
                10 => after_start + end_sz,
                11 => after_start + end_sz + 1,
                12 => (after_start + end_sz).saturating_sub(1 + rng.below(3) as u32),
                0 => 0,
                1 => (actual as u32).wrapping_add(1 + rng.below(40) as u32),
                2 => (actual as u32).saturating_sub(1 + rng.below(40) as u32),
                3 => u32::MAX,
                4 => 0x7FFF_FFFF,
                5 => 0x4000_0001,
                6 => 1,
                7 => (actual as u32).wrapping_add(0x100_0000),
                8 => rng.next_u32(),
                _ => (actual / 2) as u32,
            });
            true
        }
        "early_end" => {
            // a Game End right after Game Start (and whatever follows stays as trailing content)
            if let Some((_, sz)) = p.table.iter().find(|(c, _)| *c == L::CODE_END) {
                let mut ev = vec![0u8; 1 + *sz as usize];
                rng.fill(&mut ev[1..]);
                ev[0] = L::CODE_END;
                let method = *rng.pick(&[0u8, 1, 2, 3, 7]);
                if ev.len() > 1 {
                    ev[1] = method;
                }
                if ev.len() > 2 {
                    ev[2] = 255;
                }
                for b in ev.iter_mut().skip(3) {
                    *b = 0xFF;
                }
                let at = 1 + (f.at as usize % (1 + n / 2));
                p.events.insert(at.min(p.events.len()), ev);
                p.whats.insert(at.min(p.whats.len()), What::End { dup: false });
                true
            } else {
                false
            }
        }
        _ => {
            let _ = m;
            false
        }
    }
}

pub struct Mutated {
    pub bytes: Vec<u8>,
    pub fired: Vec<String>,
}

pub fn apply(m: &Model, transport: &[TransportFault], disk: &[DiskFault]) -> Mutated {
    let mut fired = vec![];
    let mut bytes = if transport.is_empty() {
        m.bytes.clone()
    } else {
        let mut p = parts_of(m);
        for f in transport {
            if f.kind == "raw_bytes" {
                continue;
            }
            if apply_one(&mut p, m, f) {
                fired.push(format!("transport:{}", f.kind));
            }
        }
        assemble(&p)
    };
    if let Some(f) = transport.iter().find(|f| f.kind == "raw_bytes") {
        // pure random bytes, optionally behind a valid signature / header / table
        let mut rng = Rng::new(f.pseed);
        let n = (f.at as usize) % 4000;
        let mut b = vec![0u8; n];
        rng.fill(&mut b);
        bytes = match f.arg % 4 {
            0 => b,
            1 => {
                let mut x = FILE_SIG.to_vec();
                x.extend_from_slice(&b);
                x
            }
            2 => {
                let keep = m.events.get(1).map(|e| e.off).unwrap_or(HEADER_LEN).min(m.bytes.len());
                let mut x = m.bytes[..keep].to_vec();
                x.extend_from_slice(&b);
                x
            }
            _ => {
                let keep = m.events.get(2).map(|e| e.off).unwrap_or(HEADER_LEN).min(m.bytes.len());
                let mut x = m.bytes[..keep].to_vec();
                x.extend_from_slice(&b);
                x
            }
        };
        fired.push("transport:raw_bytes".into());
    }
    for f in disk {
        let mut rng = Rng::new(f.pseed);
        let n = bytes.len();
        if n == 0 {
            break;
        }
        let at = (f.at as usize) % n;
        let len = (f.len as usize).max(1);
        match f.kind.as_str() {
            "cut" => {
                bytes.truncate(at);
            }
            "torn" => {
                // a sector partially written: keep `len % 512` bytes of it, the rest of the sector is stale (zeros or garbage)
                let s = at / 512 * 512;
                let e = (s + 512).min(n);
                let keep = s + (len % 512);
                for k in keep.min(e)..e {
                    bytes[k] = if f.pseed % 2 == 0 { 0 } else { rng.below(256) as u8 };
                }
            }
            "lost" => {
                let s = at / 512 * 512;
                let e = (s + 512 * (1 + len % 3)).min(n);
                bytes.drain(s..e);
            }
            "zeroed" => {
                let s = at / 512 * 512;
                let e = (s + 512 * (1 + len % 3)).min(n);
                for b in &mut bytes[s..e] {
                    *b = 0;
                }
            }
            "flip" => {
                bytes[at] ^= 1 << (len % 8);
            }
            "garbage" => {
                let e = (at + len).min(n);
                rng.fill(&mut bytes[at..e]);
            }
            _ => continue,
        }
        fired.push(format!("disk:{}", f.kind));
    }
    Mutated { bytes, fired }
}

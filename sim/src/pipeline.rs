//! Guarded calls into the real peppi code through the simulated endpoints,
//! and structural comparison of games (bitwise, order-sensitive).

use crate::access::FrameAccess;
use crate::report::{guarded, Caught};
use crate::simio::{IoStats, SimSink, SimStream};
use crate::spec::*;
use peppi::game::immutable::Game;
use std::collections::BTreeSet;

pub enum Res<T> {
    Ok(T),
    /// (display string, io error kind if the error was an I/O error)
    Err(String, Option<std::io::ErrorKind>),
    Caught(Caught),
}

impl<T> Res<T> {
    pub fn is_ok(&self) -> bool {
        matches!(self, Res::Ok(_))
    }
    pub fn is_err(&self) -> bool {
        matches!(self, Res::Err(..))
    }
    pub fn describe(&self) -> String {
        match self {
            Res::Ok(_) => "Ok".into(),
            Res::Err(e, _) => format!("Err({})", crate::report::short(e, 160)),
            Res::Caught(Caught::Panic { msg, loc }) => format!("panic at {}: {}", loc, crate::report::short(msg, 160)),
            Res::Caught(Caught::NoProgress(m)) => format!("no progress: {}", m),
        }
    }
}

pub struct ReadOut {
    pub res: Res<Game>,
    pub stats: IoStats,
    pub digest: u64,
    pub position: usize,
    pub high_water: usize,
    pub hard_error_returned: bool,
    pub interrupted_returned: bool,
    pub interleavings: BTreeSet<u64>,
    pub oplog: Vec<String>,
}

fn map_err(e: peppi::io::Error) -> (String, Option<std::io::ErrorKind>) {
    let kind = match &e {
        peppi::io::Error::Io(io) => Some(io.kind()),
        _ => None,
    };
    (e.to_string(), kind)
}

// The reader's `Opts.debug` option dumps every event's payload to files under a directory.
// It is the one place where the library touches the real file system, so it is not simulated:
// the dump goes to a per-process scratch directory (tmpfs when there is one) that is probed once,
// removed after every read, and never looked at. Only small replays get it (one file per event).
static DEBUG_DUMP: std::sync::atomic::AtomicBool = std::sync::atomic::AtomicBool::new(false);
static DEBUG_DUMPS: std::sync::atomic::AtomicU64 = std::sync::atomic::AtomicU64::new(0);
const DEBUG_DUMP_MAX_LEN: usize = 48 << 10;

pub fn set_debug_dump(on: bool) {
    DEBUG_DUMP.store(on, std::sync::atomic::Ordering::Relaxed);
    DEBUG_DUMPS.store(0, std::sync::atomic::Ordering::Relaxed);
}

pub fn take_debug_dumps() -> u64 {
    DEBUG_DUMPS.swap(0, std::sync::atomic::Ordering::Relaxed)
}

/// The scratch directory, or None when it cannot be written (then the option is never set).
fn debug_dir() -> Option<&'static std::path::PathBuf> {
    static DIR: std::sync::OnceLock<Option<std::path::PathBuf>> = std::sync::OnceLock::new();
    DIR.get_or_init(|| {
        let base = if std::path::Path::new("/dev/shm").is_dir() { std::path::PathBuf::from("/dev/shm") } else { std::env::temp_dir() };
        let dir = base.join(format!("simctl-dbg-{}", std::process::id()));
        let probe = dir.join("54");
        let ok = std::fs::create_dir_all(&probe).is_ok() && std::fs::write(probe.join("0"), [0u8; 64]).is_ok();
        let _ = std::fs::remove_dir_all(&dir);
        if ok { Some(dir) } else { None }
    })
    .as_ref()
}

fn debug_cleanup(o: &peppi::io::slippi::de::Opts) {
    if let Some(d) = &o.debug {
        let _ = std::fs::remove_dir_all(&d.dir);
    }
}

pub fn slp_opts(o: OptsSpec) -> peppi::io::slippi::de::Opts {
    slp_opts_for(o, usize::MAX)
}

pub fn slp_opts_for(o: OptsSpec, len: usize) -> peppi::io::slippi::de::Opts {
    let debug = if len <= DEBUG_DUMP_MAX_LEN && DEBUG_DUMP.load(std::sync::atomic::Ordering::Relaxed) {
        debug_dir().map(|d| {
            DEBUG_DUMPS.fetch_add(1, std::sync::atomic::Ordering::Relaxed);
            peppi::io::slippi::de::Debug { dir: d.clone() }
        })
    } else {
        None
    };
    peppi::io::slippi::de::Opts { skip_frames: o.skip_frames, compute_hash: o.compute_hash, debug }
}

pub fn read_slp(data: &[u8], ss: &StreamSpec, edges: &[usize], opts: OptsSpec) -> ReadOut {
    let mut stream = SimStream::new(data, ss, edges);
    let o = slp_opts_for(opts, data.len());
    let r = guarded(|| peppi::io::slippi::read(&mut stream, Some(&o)));
    debug_cleanup(&o);
    let res = match r {
        Ok(Ok(g)) => Res::Ok(g),
        Ok(Err(e)) => {
            let (s, k) = map_err(e);
            Res::Err(s, k)
        }
        Err(c) => Res::Caught(c),
    };
    ReadOut {
        res,
        stats: stream.stats.clone(),
        digest: stream.digest,
        position: stream.position(),
        high_water: stream.high_water,
        hard_error_returned: stream.hard_error_returned,
        interrupted_returned: stream.interrupted_returned,
        interleavings: std::mem::take(&mut stream.interleavings),
        oplog: std::mem::take(&mut stream.oplog),
    }
}

/// Read a replay that is `head ++ count x [code][65535 zeros] ++ tail` (see SparseStream).
pub fn read_slp_sparse(head: &[u8], tail: &[u8], count: u64, code: u8, chunk: usize, opts: OptsSpec) -> (Res<Game>, u64, u64) {
    let mut stream = crate::simio::SparseStream::new(head, tail, count, code, chunk);
    let o = slp_opts(opts);
    let r = guarded(|| peppi::io::slippi::read(&mut stream, Some(&o)));
    let res = match r {
        Ok(Ok(g)) => Res::Ok(g),
        Ok(Err(e)) => {
            let (s, k) = map_err(e);
            Res::Err(s, k)
        }
        Err(c) => Res::Caught(c),
    };
    (res, stream.reads, stream.seeks)
}

/// Same, with `None` options (the default-option code path).
pub fn read_slp_noopts(data: &[u8], ss: &StreamSpec, edges: &[usize]) -> ReadOut {
    let mut stream = SimStream::new(data, ss, edges);
    let r = guarded(|| peppi::io::slippi::read(&mut stream, None));
    let res = match r {
        Ok(Ok(g)) => Res::Ok(g),
        Ok(Err(e)) => {
            let (s, k) = map_err(e);
            Res::Err(s, k)
        }
        Err(c) => Res::Caught(c),
    };
    ReadOut {
        res,
        stats: stream.stats.clone(),
        digest: stream.digest,
        position: stream.position(),
        high_water: stream.high_water,
        hard_error_returned: stream.hard_error_returned,
        interrupted_returned: stream.interrupted_returned,
        interleavings: std::mem::take(&mut stream.interleavings),
        oplog: std::mem::take(&mut stream.oplog),
    }
}

pub fn read_slpp(data: &[u8], ss: &StreamSpec, skip_frames: bool) -> ReadOut {
    let mut stream = SimStream::new(data, ss, &[]);
    let o = peppi::io::peppi::de::Opts { skip_frames };
    let r = guarded(|| peppi::io::peppi::read(&mut stream, Some(&o)));
    let res = match r {
        Ok(Ok(g)) => Res::Ok(g),
        Ok(Err(e)) => {
            let (s, k) = map_err(e);
            Res::Err(s, k)
        }
        Err(c) => Res::Caught(c),
    };
    ReadOut {
        res,
        stats: stream.stats.clone(),
        digest: stream.digest,
        position: stream.position(),
        high_water: stream.high_water,
        hard_error_returned: stream.hard_error_returned,
        interrupted_returned: stream.interrupted_returned,
        interleavings: std::mem::take(&mut stream.interleavings),
        oplog: std::mem::take(&mut stream.oplog),
    }
}

pub struct WriteOut {
    pub res: Res<()>,
    pub data: Vec<u8>,
    pub stats: IoStats,
    pub digest: u64,
    pub interrupted_returned: bool,
    pub failed: bool,
}

pub fn write_slp(game: &Game, ks: &SinkSpec) -> WriteOut {
    let mut sink = SimSink::new(ks);
    let r = guarded(|| peppi::io::slippi::write(&mut sink, game));
    let res = match r {
        Ok(Ok(())) => Res::Ok(()),
        Ok(Err(e)) => {
            let (s, k) = map_err(e);
            Res::Err(s, k)
        }
        Err(c) => Res::Caught(c),
    };
    WriteOut {
        res,
        stats: sink.stats.clone(),
        digest: sink.digest,
        interrupted_returned: sink.interrupted_returned,
        failed: sink.failed,
        data: sink.data,
    }
}

pub fn write_slpp(game: Game, ks: &SinkSpec, comp: Compression) -> WriteOut {
    let mut sink = SimSink::new(ks);
    let o = peppi::io::peppi::ser::Opts {
        compression: match comp {
            Compression::None => None,
            Compression::Lz4 => Some(arrow2::io::ipc::write::Compression::LZ4),
            Compression::Zstd => Some(arrow2::io::ipc::write::Compression::ZSTD),
        },
    };
    let r = guarded(|| peppi::io::peppi::write(&mut sink, game, Some(&o)).map_err(|e| e.to_string()));
    let res = match r {
        Ok(Ok(())) => Res::Ok(()),
        Ok(Err(e)) => Res::Err(e, None),
        Err(c) => Res::Caught(c),
    };
    WriteOut {
        res,
        stats: sink.stats.clone(),
        digest: sink.digest,
        interrupted_returned: sink.interrupted_returned,
        failed: sink.failed,
        data: sink.data,
    }
}

// ---------- comparison ----------

pub fn json_of<T: serde::Serialize>(x: &T) -> String {
    serde_json::to_string(x).unwrap_or_else(|e| format!("<json error {}>", e))
}

/// Compare two frame containers cell by cell. Returns (site, message) of the first difference.
pub fn cmp_frames<A: FrameAccess + ?Sized, B: FrameAccess + ?Sized>(a: &A, b: &B) -> Result<u64, (String, String)> {
    let mut n = 0u64;
    if a.rows() != b.rows() {
        return Err(("frames.rows".into(), format!("{} vs {}", a.rows(), b.rows())));
    }
    if a.nports() != b.nports() {
        return Err(("frames.ports".into(), format!("{} vs {}", a.nports(), b.nports())));
    }
    for r in 0..a.rows() {
        if a.id_at(r) != b.id_at(r) {
            return Err((format!("frames.id row={}", r), format!("{:?} vs {:?}", a.id_at(r), b.id_at(r))));
        }
    }
    for slot in 0..a.nports() {
        if a.port(slot) != b.port(slot) {
            return Err((format!("ports[{}]", slot), format!("{:?} vs {:?}", a.port(slot), b.port(slot))));
        }
        for fol in [false, true] {
            if a.char_len(slot, fol) != b.char_len(slot, fol) {
                return Err((
                    format!("ports[{}].{}", slot, if fol { "follower" } else { "leader" }),
                    format!("len {:?} vs {:?}", a.char_len(slot, fol), b.char_len(slot, fol)),
                ));
            }
            let Some(len) = a.char_len(slot, fol) else { continue };
            for r in 0..len {
                let who = if fol { "follower" } else { "leader" };
                if a.char_present(slot, fol, r) != b.char_present(slot, fol, r) {
                    return Err((
                        format!("ports[{}].{}.validity row={}", slot, who, r),
                        format!("{:?} vs {:?}", a.char_present(slot, fol, r), b.char_present(slot, fol, r)),
                    ));
                }
                let (pa, pb) = (a.pre(slot, fol, r), b.pre(slot, fol, r));
                if pa != pb {
                    let k = pa.iter().zip(pb.iter()).position(|(x, y)| x != y).unwrap_or(0);
                    return Err((
                        format!("ports[{}].{}.pre.{} row={}", slot, who, crate::layout::PRE[k].name, r),
                        format!("{:?} vs {:?}", pa[k], pb[k]),
                    ));
                }
                let (pa, pb) = (a.post(slot, fol, r), b.post(slot, fol, r));
                if pa != pb {
                    let k = pa.iter().zip(pb.iter()).position(|(x, y)| x != y).unwrap_or(0);
                    return Err((
                        format!("ports[{}].{}.post.{} row={}", slot, who, crate::layout::POST[k].name, r),
                        format!("{:?} vs {:?}", pa[k], pb[k]),
                    ));
                }
                n += 2;
            }
        }
    }
    if a.has_fstart() != b.has_fstart() || a.has_fend() != b.has_fend() || a.has_items() != b.has_items() {
        return Err(("frames.start/end/item columns".into(), "column groups differ".into()));
    }
    if a.has_fstart() {
        for r in 0..a.rows() {
            if a.fstart(r) != b.fstart(r) {
                return Err((format!("start row={}", r), format!("{:?} vs {:?}", a.fstart(r), b.fstart(r))));
            }
            n += 1;
        }
    }
    if a.has_fend() {
        if a.fend_len() != b.fend_len() {
            return Err(("end.len".into(), format!("{} vs {}", a.fend_len(), b.fend_len())));
        }
        for r in 0..a.rows() {
            if a.fend(r) != b.fend(r) {
                return Err((format!("end row={}", r), format!("{:?} vs {:?}", a.fend(r), b.fend(r))));
            }
            n += 1;
        }
    }
    if a.has_items() {
        if a.item_offsets() != b.item_offsets() {
            return Err(("item_offset".into(), format!("{:?} vs {:?}", a.item_offsets(), b.item_offsets())));
        }
        if a.item_count() != b.item_count() {
            return Err(("item.len".into(), format!("{} vs {}", a.item_count(), b.item_count())));
        }
        for k in 0..a.item_count() {
            if a.item(k) != b.item(k) {
                return Err((format!("item[{}]", k), format!("{:?} vs {:?}", a.item(k), b.item(k))));
            }
            n += 1;
        }
    }
    Ok(n)
}

#[derive(Clone, Copy)]
pub struct CmpMask {
    pub frames: bool,
    pub hash: bool,
    pub quirks: bool,
    pub start_bytes: bool,
}

impl CmpMask {
    pub const ALL: CmpMask = CmpMask { frames: true, hash: true, quirks: true, start_bytes: true };
    pub const NO_HASH: CmpMask = CmpMask { frames: true, hash: false, quirks: true, start_bytes: true };
}

/// Bitwise / order-sensitive comparison of two games.
pub fn cmp_games(a: &Game, b: &Game, m: CmpMask) -> Result<u64, (String, String)> {
    let mut n = 0;
    if m.start_bytes && a.start.bytes.0 != b.start.bytes.0 {
        return Err(("start.bytes".into(), "raw Game Start blocks differ".into()));
    }
    let (ja, jb) = (json_of(&a.start), json_of(&b.start));
    if ja != jb {
        return Err(("start".into(), format!("{} vs {}", crate::report::short(&ja, 200), crate::report::short(&jb, 200))));
    }
    match (&a.end, &b.end) {
        (None, None) => {}
        (Some(x), Some(y)) => {
            if m.start_bytes && x.bytes.0 != y.bytes.0 {
                return Err(("end.bytes".into(), "raw Game End blocks differ".into()));
            }
            let (ja, jb) = (json_of(x), json_of(y));
            if ja != jb {
                return Err(("end".into(), format!("{} vs {}", ja, jb)));
            }
        }
        _ => return Err(("end".into(), format!("{:?} vs {:?}", a.end.is_some(), b.end.is_some()))),
    }
    let (ma, mb) = (json_of(&a.metadata), json_of(&b.metadata));
    if ma != mb {
        return Err(("metadata".into(), format!("{} vs {}", crate::report::short(&ma, 200), crate::report::short(&mb, 200))));
    }
    match (&a.gecko_codes, &b.gecko_codes) {
        (None, None) => {}
        (Some(x), Some(y)) => {
            if x.actual_size != y.actual_size || x.bytes != y.bytes {
                return Err(("gecko_codes".into(), format!("actual_size {} vs {}, bytes equal: {}", x.actual_size, y.actual_size, x.bytes == y.bytes)));
            }
        }
        _ => return Err(("gecko_codes".into(), "presence differs".into())),
    }
    n += 4;
    if m.hash && a.hash != b.hash {
        return Err(("hash".into(), format!("{:?} vs {:?}", a.hash, b.hash)));
    }
    if m.quirks {
        let qa = a.quirks.map_or(false, |q| q.double_game_end);
        let qb = b.quirks.map_or(false, |q| q.double_game_end);
        if qa != qb {
            return Err(("quirks".into(), format!("double_game_end {} vs {}", qa, qb)));
        }
    }
    if m.frames {
        n += cmp_frames(&a.frames, &b.frames)?;
    }
    Ok(n)
}

//! Worker process: runs scenarios one at a time on a dedicated 8 MiB-stack
//! thread and reports over stdout. A worker that dies between `B` and `E` is a
//! process-fatal violation of that run (stack overflow, abort).

use crate::props;
use crate::report::RunReport;
use crate::spec::ScenarioSpec;
use crate::Tier;
use serde::{Deserialize, Serialize};
use std::collections::{BTreeMap, BTreeSet};
use std::io::{BufRead, Write};

#[derive(Serialize, Deserialize, Default, Debug, Clone)]
pub struct Agg {
    pub runs: u64,
    pub violations: u64,
    pub nontrivial_runs: u64,
    pub checks: u64,
    pub sim_time_ns: u64,
    pub stream_calls: u64,
    pub faults: BTreeMap<String, u64>,
    pub probes: BTreeMap<String, u64>,
    pub skipped: BTreeMap<String, u64>,
    /// only elements not reported by this worker before (delta encoding)
    pub states: Vec<u64>,
    pub interleavings: Vec<u64>,
    pub shapes: Vec<u64>,
    pub shapes_nontrivial: Vec<u64>,
}

impl Agg {
    pub fn merge(&mut self, o: &Agg) {
        self.runs += o.runs;
        self.violations += o.violations;
        self.nontrivial_runs += o.nontrivial_runs;
        self.checks += o.checks;
        self.sim_time_ns += o.sim_time_ns;
        self.stream_calls += o.stream_calls;
        for (k, v) in &o.faults {
            *self.faults.entry(k.clone()).or_default() += v;
        }
        for (k, v) in &o.probes {
            *self.probes.entry(k.clone()).or_default() += v;
        }
        for (k, v) in &o.skipped {
            *self.skipped.entry(k.clone()).or_default() += v;
        }
    }
}

#[derive(Default)]
struct Seen {
    states: BTreeSet<u64>,
    interleavings: BTreeSet<u64>,
    shapes: BTreeSet<u64>,
    shapes_nontrivial: BTreeSet<u64>,
}

fn absorb(agg: &mut Agg, seen: &mut Seen, rep: &RunReport) {
    agg.runs += 1;
    if rep.violation.is_some() {
        agg.violations += 1;
    }
    if rep.nontrivial {
        agg.nontrivial_runs += 1;
    }
    agg.checks += rep.checks;
    agg.sim_time_ns += rep.sim_time_ns;
    agg.stream_calls += rep.stream_calls;
    for (k, v) in &rep.faults {
        *agg.faults.entry(k.clone()).or_default() += v;
    }
    for (k, v) in &rep.probes {
        *agg.probes.entry(k.clone()).or_default() += v;
    }
    for (k, v) in &rep.skipped {
        *agg.skipped.entry(k.clone()).or_default() += v;
    }
    for s in &rep.states {
        if seen.states.len() < 2_000_000 && seen.states.insert(*s) {
            agg.states.push(*s);
        }
    }
    for s in &rep.interleavings {
        if seen.interleavings.len() < 2_000_000 && seen.interleavings.insert(*s) {
            agg.interleavings.push(*s);
        }
    }
    if seen.shapes.insert(rep.shape_sig) {
        agg.shapes.push(rep.shape_sig);
    }
    if rep.nontrivial && seen.shapes_nontrivial.insert(rep.shape_sig) {
        agg.shapes_nontrivial.push(rep.shape_sig);
    }
}

fn serve() {
    crate::report::install_panic_hook();
    let stdin = std::io::stdin();
    let stdout = std::io::stdout();
    let mut seen = Seen::default();
    let mut line = String::new();
    loop {
        line.clear();
        match stdin.lock().read_line(&mut line) {
            Ok(0) | Err(_) => return,
            Ok(_) => {}
        }
        let l = line.trim_end();
        if l == "QUIT" {
            return;
        }
        if let Some(rest) = l.strip_prefix("CHUNK ") {
            let p: Vec<&str> = rest.split(' ').collect();
            if p.len() != 5 {
                eprintln!("worker: bad CHUNK line");
                std::process::exit(3);
            }
            let prop = p[0];
            let tier = Tier::parse(p[1]).unwrap();
            let master: u64 = p[2].parse().unwrap();
            let start: u64 = p[3].parse().unwrap();
            let end: u64 = p[4].parse().unwrap();
            let mut agg = Agg::default();
            for i in start..end {
                {
                    let mut o = stdout.lock();
                    let _ = writeln!(o, "B {}", i);
                    let _ = o.flush();
                }
                let seed = crate::run_seed(master, prop, i);
                let spec = props::gen(prop, seed, tier);
                crate::alloc::set_active(true);
                let rep = props::run(&spec);
                crate::alloc::set_active(false);
                absorb(&mut agg, &mut seen, &rep);
                let mut o = stdout.lock();
                match &rep.violation {
                    None => {
                        let _ = writeln!(o, "E {} {:016x} ok", i, rep.digest);
                    }
                    Some(v) => {
                        let _ = writeln!(o, "E {} {:016x} V {}", i, rep.digest, serde_json::to_string(v).unwrap());
                    }
                }
            }
            let mut o = stdout.lock();
            let _ = writeln!(o, "S {}", serde_json::to_string(&agg).unwrap());
            let _ = o.flush();
        } else if let Some(rest) = l.strip_prefix("SPEC ") {
            let spec: ScenarioSpec = match crate::spec::from_json_unbounded(rest) {
                Ok(s) => s,
                Err(e) => {
                    eprintln!("worker: bad SPEC: {}", e);
                    std::process::exit(3);
                }
            };
            {
                let mut o = stdout.lock();
                let _ = writeln!(o, "B 0");
                let _ = o.flush();
            }
            crate::alloc::set_active(true);
            let rep = props::run(&spec);
            crate::alloc::set_active(false);
            let mut o = stdout.lock();
            let _ = writeln!(o, "R {}", serde_json::to_string(&rep).unwrap());
            let _ = o.flush();
        } else {
            eprintln!("worker: unknown command {:?}", l);
            std::process::exit(3);
        }
    }
}

pub fn main() {
    // heartbeat: tell the supervisor we are alive, but only while simulated I/O or oracle
    // steps are actually happening
    std::thread::spawn(|| {
        let mut last = crate::simio::PROGRESS.load(std::sync::atomic::Ordering::Relaxed);
        loop {
            std::thread::sleep(std::time::Duration::from_millis(500));
            let now = crate::simio::PROGRESS.load(std::sync::atomic::Ordering::Relaxed);
            if now != last {
                last = now;
                let mut o = std::io::stdout().lock();
                let _ = writeln!(o, "H");
                let _ = o.flush();
            }
        }
    });
    // the scenario thread has the default main-thread stack size (8 MiB)
    let h = std::thread::Builder::new().stack_size(8 << 20).name("scenario".into()).spawn(serve).unwrap();
    let _ = h.join();
}


struct Silent;
impl log::Log for Silent {
    fn enabled(&self, _: &log::Metadata) -> bool {
        true
    }
    fn log(&self, record: &log::Record) {
        // evaluate the arguments like a real logger would, discard the text
        let _ = format!("{}", record.args());
    }
    fn flush(&self) {}
}
static SILENT: Silent = Silent;

pub fn set_log_level(level: u8) {
    static ONCE: std::sync::Once = std::sync::Once::new();
    ONCE.call_once(|| {
        let _ = log::set_logger(&SILENT);
    });
    log::set_max_level(match level {
        0 => log::LevelFilter::Off,
        1 => log::LevelFilter::Info,
        2 => log::LevelFilter::Debug,
        _ => log::LevelFilter::Trace,
    });
}

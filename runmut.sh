#!/bin/bash
# run named mutants against named property lists: lines "mutant props"
while read m props; do /verif/mutest.sh /verif/seeded/$m/patch.diff $props 2>&1 | grep "MUTEST" | cut -c1-330; done

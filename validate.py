#!/usr/bin/env python3
"""Validate MANIFEST.json and evidence/*.json against the given schemas (uses the tooling venv's jsonschema)."""
import json, sys, glob
import jsonschema
ok = True
m = json.load(open('/verif/MANIFEST.json'))
try:
    jsonschema.validate(m, json.load(open('/root/.vp/MANIFEST.schema.json')))
    print('MANIFEST.json ok')
except Exception as e:
    ok = False; print('MANIFEST.json INVALID:', e)
es = json.load(open('/root/.vp/EVIDENCE.schema.json'))
for f in sorted(glob.glob('/verif/evidence/*.json')):
    try:
        jsonschema.validate(json.load(open(f)), es); print(f, 'ok')
    except Exception as e:
        ok = False; print(f, 'INVALID:', str(e)[:300])
props = [json.loads(l)['id'] for l in open('/verif/properties.jsonl')]
claimed = [c['property_id'] for c in m['checks']]
na = [c['property_id'] for c in m.get('not_applicable', [])]
for p in props:
    if p not in claimed and p not in na:
        print('note: property', p, 'neither claimed nor not_applicable')
sys.exit(0 if ok else 1)
